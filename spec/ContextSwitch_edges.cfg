\* generator: every edge of the small reachable graph is printed (EDGE lines)
SPECIFICATION Spec
CONSTANTS
  NCtx = 2
  NThreads = 2
  SizeRes = {0, 8}
  Pats = {1}
  MaxLen = 5
  Mode = "edges"
INVARIANTS EmitHook
CHECK_DEADLOCK FALSE
