\* non-vacuity: TLC must report W_Migrated / W_Reinit violated (a created context that ran on thread 0
\* is resumed on thread 1; a slot is destroyed, re-created and run again)
SPECIFICATION Spec
CONSTANTS
  NCtx = 2
  NThreads = 2
  SizeRes = {0}
  Pats = {1}
  MaxLen = 7
  Mode = "check"
INVARIANTS W_Reinit
CHECK_DEADLOCK FALSE
