\* generated once by hand (see tools/check_c08.py TIERS); Mode "edges": every transition is printed
SPECIFICATION Spec
CONSTANTS
  Slots = {"d1"}
  InitKinds <- IK_sock
  Cap = 2
  MaxLen = 4
  Apis = "min"
  Mode = "edges"
INVARIANTS EmitHook OracleOK
CHECK_DEADLOCK FALSE
