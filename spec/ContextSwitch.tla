--------------------------- MODULE ContextSwitch ---------------------------
(***************************************************************************)
(* Property C19.  Oracle and test generator for /repo/src/fiber_context.c  *)
(* (x86-64, FIBER_FAST_SWITCHING back-end; the ucontext back-end must show  *)
(* the same observable behaviour).                                          *)
(*                                                                         *)
(* The model is a tiny abstract machine: per kernel thread a cpu with the  *)
(* six callee-saved registers, sp and the stack sp points into; per        *)
(* context a word-addressed private stack.  fiber_context_init writes the  *)
(* fresh frame word by word, fiber_context_swap is the push/pop sequence   *)
(* of the inline assembly.  "What the property demands" is kept in ghost   *)
(* variables (gregs, gsp, gpat, garg) that never flow through the modelled *)
(* memory; the invariants say that what the machine computes through the   *)
(* frames equals the ghosts.                                               *)
(*                                                                         *)
(* Context ids: 0,1 = thread contexts of kernel threads 0,1                *)
(* (fiber_context_init_from_thread), 2..NCtx+1 = created contexts.         *)
(*                                                                         *)
(* Mode = "check": plain model checking (last/hist stay constant).         *)
(* Mode = "edges": `last' carries the action record and the printed key of *)
(*   the predecessor state; EmitHook prints one EDGE line per edge of the  *)
(*   reachable graph (tools/check_c19.py walks it for an edge cover).      *)
(* Mode = "hist": `hist' accumulates the action records; EmitHook prints   *)
(*   one HIST line per behaviour of length MaxLen (used with -simulate).   *)
(* Every action record carries the EXPECTED observations for the executor  *)
(* drivers/ctx_exec.c.                                                     *)
(***************************************************************************)
EXTENDS Integers, Sequences, FiniteSets, TLC, Json

CONSTANTS NCtx,      \* number of creatable context slots (1..3)
          NThreads,  \* kernel threads (1 or 2)
          SizeRes,   \* requested stack sizes, abstracted to size mod 16
          Pats,      \* register/canary pattern ids a running context may load
          MaxLen,    \* bound on the number of actions
          Mode       \* "check" | "edges" | "hist"

ASSUME NCtx \in 1..3 /\ NThreads \in 1..2 /\ SizeRes \subseteq 0..15 /\ MaxLen \in Nat

Threads == 0 .. NThreads-1
TCtx    == 0 .. NThreads-1
CCtx    == 2 .. NCtx+1
Ctx     == TCtx \cup CCtx

RegNames == <<"rbx", "rbp", "r12", "r13", "r14", "r15">>
RegSet   == {RegNames[i] : i \in 1..6}
Idx(r)   == CHOOSE i \in 1..6 : RegNames[i] = r

W         == 26      \* words of a model stack (word i = bytes 8i..8i+7, base = 0 mod 16)
ModelSize == 192     \* model stack size in bytes before adding the residue
NCan      == 2       \* canary cells (locals of the context function)
EntryMod  == 8       \* SysV x86-64: at function entry (rsp + 8) mod 16 = 0

\* all memory cells / register contents have the same shape (TLC compares them)
Val(tag, a, b, c) == <<tag, a, b, c>>
Zero       == Val("zero", 0, 0, 0)
Junk       == Val("junk", 0, 0, 0)
NullRet    == Val("nullret", 0, 0, 0)
Pad        == Val("pad", 0, 0, 0)
Fn(c)      == Val("fn", c, 0, 0)     \* address of c's run function
Rip(c)     == Val("rip", c, 0, 0)    \* label 0 in fiber_context_swap as called by c
Ret(c)     == Val("ret", c, 0, 0)    \* return address of c's call to fiber_context_swap
Arg(c, k)  == Val("arg", c, k, 0)
RegV(c, p, i) == Val("reg", c, p, i)
CanV(c, p, i) == Val("can", c, p, i)

RegsOf(c, p) == [r \in RegSet |-> RegV(c, p, Idx(r))]
RegSeq(f)    == [i \in 1..6 |-> f[RegNames[i]]]
CanSeq(c, p) == [i \in 1..NCan |-> CanV(c, p, i)]

VARIABLES status,    \* Ctx -> "none" | "fresh" | "running" | "suspended" | "destroyed"
          cpu,       \* Threads -> [sp, stk, regs]
          running,   \* Threads -> Ctx
          active,    \* the kernel thread that performs the next action
          mem,       \* Ctx -> [0..W-1 -> cell]      (the context's current stack)
          savedsp,   \* Ctx -> ctx_stack_pointer (byte offset), -1 = none
          savedstk,  \* Ctx -> which stack ctx_stack_pointer points into (ghost)
          sid,       \* Ctx -> id of the current stack (index into heap), 0 = none
          heap,      \* sequence of [owner, rel]: every stack ever allocated, release count
          gregs, gsp, gpat, garg,  \* ghosts: what the context holds / was given
          entry,     \* CCtx -> what the run function saw at entry [spmod, arg, stk]
          canbase,   \* Ctx -> word index above the canaries (canary i at canbase-i)
          crashed,   \* wild jump or stack overflow in the model
          n,         \* number of actions taken
          last, hist \* generator output (see Mode)

core == <<status, cpu, running, active, mem, savedsp, savedstk, sid, heap,
          gregs, gsp, gpat, garg, entry, canbase, crashed, n>>
vars == <<core, last, hist>>
KeyStr == ToString(core)

Live(c) == status[c] \in {"fresh", "running", "suspended"}
NLive(st) == Cardinality({c \in CCtx : st[c] \in {"fresh", "running", "suspended"}})

-----------------------------------------------------------------------------
(* the abstract machine: m = [sp, stk, regs, mem, bad] *)
Push(m, v) ==
  IF m.sp - 8 < 0 THEN [m EXCEPT !.bad = TRUE]
  ELSE [m EXCEPT !.sp = m.sp - 8, !.mem[m.stk][(m.sp - 8) \div 8] = v]

Load(m, stk, addr) ==
  IF addr < 0 \/ addr >= 8 * W \/ addr % 8 # 0 THEN Junk ELSE m.mem[stk][addr \div 8]

Pop(m, r) == [m EXCEPT !.regs[r] = Load(m, m.stk, m.sp), !.sp = m.sp + 8]

(* fiber_context_init, FIBER_FAST_SWITCHING x86-64 *)
InitFrame(c, res, argv) ==
  LET top == ((ModelSize + res - 8) \div 16) * 16     \* (stack + size - 8) & ~0xf
      m0  == [sp |-> top - 8,                           \* filler decrement
              stk |-> c, regs |-> [r \in RegSet |-> Junk],
              mem |-> [mem EXCEPT ![c] = [i \in 0..W-1 |-> Junk]], bad |-> FALSE]
      m1  == Push(m0, argv)        \* param
      m2  == Push(m1, NullRet)     \* dummy return address
      m3  == Push(m2, Fn(c))       \* run_function
      m4  == Push(m3, Zero)        \* rbp
      m5  == Push(m4, Zero)        \* rbx
      m6  == Push(m5, Zero)        \* r12
      m7  == Push(m6, Zero)        \* r13
      m8  == Push(m7, Zero)        \* r14
      m9  == Push(m8, Zero)        \* r15
  IN m9

(* fiber_context_swap, the inline assembly *)
SwapSeq(m0, from, to) ==
  LET tosp == savedsp[to]
      rcx  == Load(m0, to, tosp + 48)              \* movq 48(%[to]), %rcx
      a1 == Push(m0, Rip(from))                    \* leaq 0f(%rip),%rax ; pushq %rax
      a2 == Push(a1, m0.regs["rbp"])
      a3 == Push(a2, m0.regs["rbx"])
      a4 == Push(a3, m0.regs["r12"])
      a5 == Push(a4, m0.regs["r13"])
      a6 == Push(a5, m0.regs["r14"])
      a7 == Push(a6, m0.regs["r15"])
      fromsp == a7.sp                               \* movq %rsp, (%[from])
      b0 == [a7 EXCEPT !.sp = tosp, !.stk = savedstk[to]]   \* movq %[to], %rsp
      b1 == Pop(b0, "r15")
      b2 == Pop(b1, "r14")
      b3 == Pop(b2, "r13")
      b4 == Pop(b3, "r12")
      b5 == Pop(b4, "rbx")
      b6 == Pop(b5, "rbp")
      rdi == Load(b6, b6.stk, tosp + 64)           \* movq 64(%[to]), %rdi
      b7 == [b6 EXCEPT !.sp = b6.sp + 8]           \* add $8, %rsp
  IN [m |-> b7, rcx |-> rcx, rdi |-> rdi, fromsp |-> fromsp, fromstk |-> a7.stk]

-----------------------------------------------------------------------------
Post == [st |-> [c \in Ctx |-> status'[c]], heap |-> heap', live |-> NLive(status')]

Log(act) ==
  LET a == [act EXCEPT !.post = Post] IN
  /\ last' = IF Mode = "edges" THEN [prev |-> KeyStr, act |-> a] ELSE last
  /\ hist' = IF Mode = "hist" THEN Append(hist, a) ELSE hist

Init ==
  /\ status = [c \in Ctx |-> IF c \in TCtx THEN "running" ELSE "none"]
  /\ cpu = [t \in Threads |-> [sp |-> 8 * (W - 5), stk |-> t, regs |-> RegsOf(t, 0)]]
  /\ running = [t \in Threads |-> t]
  /\ active = 0
  /\ mem = [c \in Ctx |-> [i \in 0..W-1 |->
              IF c \in TCtx /\ i = W - 2 THEN CanV(c, 0, 1)
              ELSE IF c \in TCtx /\ i = W - 3 THEN CanV(c, 0, 2)
              ELSE IF c \in TCtx /\ i = W - 4 THEN Pad
              ELSE IF c \in TCtx /\ i = W - 5 THEN Ret(c)
              ELSE Junk]]
  /\ savedsp = [c \in Ctx |-> -1]
  /\ savedstk = [c \in Ctx |-> c]
  /\ sid = [c \in Ctx |-> 0]
  /\ heap = <<>>
  /\ gregs = [c \in Ctx |-> RegsOf(c, 0)]
  /\ gsp = [c \in Ctx |-> 8 * (W - 5)]
  /\ gpat = [c \in Ctx |-> 0]
  /\ garg = [c \in Ctx |-> Zero]
  /\ entry = [c \in Ctx |-> [spmod |-> EntryMod, arg |-> Zero, stk |-> c]]
  /\ canbase = [c \in Ctx |-> W - 1]
  /\ crashed = FALSE
  /\ n = 0
  /\ last = [prev |-> "", act |-> [a |-> "none"]]
  /\ hist = <<>>

Guard == n < MaxLen /\ ~crashed

(* fiber_context_init(&ctx[c], size, fn, arg), called by whoever runs on the active thread *)
InitCtx(c, res) ==
  LET by == running[active]
      k  == Len(heap) + 1
      av == Arg(c, k)
      m  == InitFrame(c, res, av)
  IN /\ Guard
     /\ status[c] \in {"none", "destroyed"}
     /\ status' = [status EXCEPT ![c] = "fresh"]
     /\ mem' = m.mem
     /\ savedsp' = [savedsp EXCEPT ![c] = m.sp]
     /\ savedstk' = [savedstk EXCEPT ![c] = m.stk]
     /\ sid' = [sid EXCEPT ![c] = k]
     /\ heap' = Append(heap, [owner |-> c, rel |-> 0])
     /\ garg' = [garg EXCEPT ![c] = av]
     /\ crashed' = m.bad
     /\ n' = n + 1
     /\ UNCHANGED <<cpu, running, active, gregs, gsp, gpat, entry, canbase>>
     /\ Log([a |-> "init", by |-> by, c |-> c, res |-> res, arg |-> av,
             exp |-> [ok |-> 1, fresh_sp_mod16 |-> 0], post |-> 0])

(* the running context loads pattern p into its callee-saved registers and its locals *)
SetRegs(p) ==
  LET t == active
      c == running[t]
  IN /\ Guard
     /\ gpat[c] # p
     /\ cpu' = [cpu EXCEPT ![t].regs = RegsOf(c, p)]
     /\ gregs' = [gregs EXCEPT ![c] = RegsOf(c, p)]
     /\ gpat' = [gpat EXCEPT ![c] = p]
     /\ mem' = [mem EXCEPT ![c] = [i \in 0..W-1 |->
                   IF \E j \in 1..NCan : i = canbase[c] - j
                   THEN CanV(c, p, canbase[c] - i) ELSE @[i]]]
     /\ n' = n + 1
     /\ UNCHANGED <<status, running, active, savedsp, savedstk, sid, heap, gsp, garg,
                    entry, canbase, crashed>>
     /\ Log([a |-> "setregs", c |-> c, regs |-> RegSeq(RegsOf(c, p)), can |-> CanSeq(c, p),
             post |-> 0])

(* fiber_context_swap(&ctx[from], &ctx[to]) by the context running on the active thread *)
Swap(to) ==
  LET t    == active
      from == running[t]
      m0   == [sp |-> cpu[t].sp, stk |-> cpu[t].stk, regs |-> cpu[t].regs, mem |-> mem,
               bad |-> FALSE]
      r    == SwapSeq(m0, from, to)
      m    == r.m
      \* prologue of the run function of a fresh context: locals (canaries), then its
      \* own call of fiber_context_swap pushes a return address
      e1 == Push(m, CanV(to, 0, 1))
      e2 == Push(e1, CanV(to, 0, 2))
      e3 == Push(e2, Pad)
      e4 == Push(e3, Ret(to))
      isEntry  == r.rcx = Fn(to)
      isResume == r.rcx = Rip(to)
  IN /\ Guard
     /\ to # from
     /\ status[to] \in {"fresh", "suspended"}
     /\ (to \in TCtx => to = t)      \* a kernel thread's native stack is not migrated
     /\ status' = [status EXCEPT ![from] = "suspended", ![to] = "running"]
     /\ running' = [running EXCEPT ![t] = to]
     /\ savedsp' = [savedsp EXCEPT ![from] = r.fromsp]
     /\ savedstk' = [savedstk EXCEPT ![from] = r.fromstk]
     /\ n' = n + 1
     /\ UNCHANGED <<active, sid, heap, garg>>
     /\ IF isEntry THEN
          /\ cpu' = [cpu EXCEPT ![t] = [sp |-> e4.sp, stk |-> e4.stk, regs |-> RegsOf(to, 0)]]
          /\ mem' = e4.mem
          /\ entry' = [entry EXCEPT ![to] = [spmod |-> m.sp % 16, arg |-> r.rdi, stk |-> m.stk]]
          /\ canbase' = [canbase EXCEPT ![to] = m.sp \div 8]
          /\ gregs' = [gregs EXCEPT ![to] = RegsOf(to, 0)]
          /\ gsp' = [gsp EXCEPT ![to] = e4.sp]
          /\ gpat' = [gpat EXCEPT ![to] = 0]
          /\ crashed' = (m.bad \/ e4.bad)
          /\ Log([a |-> "swap", thread |-> t, from |-> from, to |-> to,
                  plant |-> RegSeq(gregs[from]),
                  exp |-> [kind |-> "entry", arg |-> garg[to], spmod |-> EntryMod, stk |-> to,
                           svstk |-> from],
                  newcan |-> CanSeq(to, 0), post |-> 0])
        ELSE
          /\ cpu' = [cpu EXCEPT ![t] = [sp |-> m.sp, stk |-> m.stk, regs |-> m.regs]]
          /\ mem' = m.mem
          /\ crashed' = (m.bad \/ ~isResume)
          /\ UNCHANGED <<entry, canbase, gregs, gsp, gpat>>
          /\ Log([a |-> "swap", thread |-> t, from |-> from, to |-> to,
                  plant |-> RegSeq(gregs[from]),
                  exp |-> [kind |-> "resume", regs |-> RegSeq(gregs[to]), can |-> CanSeq(to, gpat[to]),
                           spsame |-> 1, stk |-> to, svstk |-> from],
                  newcan |-> <<>>, post |-> 0])

(* fiber_context_destroy(&ctx[c]) of a context that is not running *)
Destroy(c) ==
  LET by == running[active] IN
  /\ Guard
  /\ c \in CCtx
  /\ status[c] \in {"fresh", "suspended"}
  /\ status' = [status EXCEPT ![c] = "destroyed"]
  /\ heap' = [heap EXCEPT ![sid[c]].rel = @ + 1]
  /\ n' = n + 1
  /\ UNCHANGED <<cpu, running, active, mem, savedsp, savedstk, sid, gregs, gsp, gpat, garg,
                 entry, canbase, crashed>>
  /\ Log([a |-> "destroy", by |-> by, c |-> c, stack |-> sid[c],
          exp |-> [rel |-> 1], post |-> 0])

(* the active kernel thread parks (inside its current context) and the other one continues *)
Handover ==
  /\ Guard
  /\ NThreads = 2
  /\ active' = 1 - active
  /\ n' = n + 1
  /\ UNCHANGED <<status, cpu, running, mem, savedsp, savedstk, sid, heap, gregs, gsp, gpat,
                 garg, entry, canbase, crashed>>
  /\ Log([a |-> "handover", from |-> active, to |-> 1 - active, post |-> 0])

Next ==
  \/ \E c \in CCtx, res \in SizeRes : InitCtx(c, res)
  \/ \E p \in Pats : SetRegs(p)
  \/ \E to \in Ctx : Swap(to)
  \/ \E c \in CCtx : Destroy(c)
  \/ Handover

Spec == Init /\ [][Next]_vars

-----------------------------------------------------------------------------
(* Invariants *)
StatusSet == {"none", "fresh", "running", "suspended", "destroyed"}
TypeOK ==
  /\ status \in [Ctx -> StatusSet]
  /\ running \in [Threads -> Ctx]
  /\ active \in Threads
  /\ \A c \in Ctx : savedsp[c] \in -1 .. 8 * W /\ sid[c] \in 0 .. Len(heap)
  /\ n \in 0 .. MaxLen

(* a context runs on exactly one kernel thread *)
OneRunner ==
  /\ \A c \in Ctx : (status[c] = "running") <=> (\E t \in Threads : running[t] = c)
  /\ \A t1, t2 \in Threads : running[t1] = running[t2] => t1 = t2

(* on resumption: exactly the callee-saved registers and stack pointer it had, on its own stack *)
ResumeExact ==
  \A t \in Threads : LET c == running[t] IN
     /\ cpu[t].regs = gregs[c]
     /\ cpu[t].sp = gsp[c]
     /\ cpu[t].stk = c

(* ... and the stack contents it had (locals of every live frame) *)
CanariesIntact ==
  \A c \in Ctx : status[c] \in {"running", "suspended"} =>
     \A i \in 1..NCan : mem[c][canbase[c] - i] = CanV(c, gpat[c], i)

(* the saved frame of a context that is not running lies in its own stack *)
SavedInOwnStack ==
  \A c \in Ctx : status[c] \in {"fresh", "suspended"} =>
     /\ savedstk[c] = c /\ savedsp[c] >= 0 /\ savedsp[c] + 56 <= 8 * W
     /\ (status[c] = "fresh" => savedsp[c] % 16 = 0)
     /\ (status[c] = "suspended" => savedsp[c] + 56 = gsp[c] /\ Load([mem |-> mem], c, savedsp[c] + 48) = Rip(c))

(* a new context starts fn(arg) with rsp = 8 mod 16 on its private stack *)
EntryOK ==
  \A c \in CCtx : status[c] \in {"running", "suspended"} =>
     entry[c] = [spmod |-> EntryMod, arg |-> garg[c], stk |-> c]

StacksDisjoint ==
  \A c, d \in CCtx : (c # d /\ Live(c) /\ Live(d)) => (sid[c] # sid[d] /\ sid[c] # 0)

(* each stack is released exactly once: when (and only when) its context is destroyed *)
ReleasedOnce ==
  \A s \in 1 .. Len(heap) :
     /\ heap[s].rel <= 1
     /\ (heap[s].rel = 0) <=> (Live(heap[s].owner) /\ sid[heap[s].owner] = s)

NoCrash == ~crashed

(* generator hook (an "invariant" that is always TRUE) *)
EmitHook ==
  /\ (Mode = "edges" /\ n = 0) => PrintT(<<"INIT", KeyStr>>)
  /\ (Mode = "edges" /\ n > 0) => PrintT(<<"EDGE", last.prev, ToJson(last.act), KeyStr>>)
  /\ (Mode = "hist" /\ n = MaxLen) => PrintT(<<"HIST", ToJson(hist)>>)

(* non-vacuity witnesses: TLC must find each of these violated *)
W_Migrated == ~(\E c \in CCtx : status[c] = "running" /\ running[1 % NThreads] = c /\ NThreads = 2
                               /\ gpat[c] # 0 /\ sid[c] = 1)
W_Reinit   == ~(Len(heap) >= 2 /\ \E c \in CCtx : status[c] = "running" /\ sid[c] = 2 /\ heap[1].owner = c)
=============================================================================
