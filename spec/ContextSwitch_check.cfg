\* exhaustive invariant check: all action sequences of length <= 8, 3 created contexts + 2 thread contexts
SPECIFICATION Spec
CONSTANTS
  NCtx = 3
  NThreads = 2
  SizeRes = {0, 1, 8, 15}
  Pats = {1, 2}
  MaxLen = 8
  Mode = "check"
INVARIANTS TypeOK OneRunner ResumeExact CanariesIntact SavedInOwnStack EntryOK StacksDisjoint ReleasedOnce NoCrash
CHECK_DEADLOCK FALSE
