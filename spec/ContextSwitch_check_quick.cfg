\* exhaustive invariant check, quick tier: all action sequences of length <= 7
SPECIFICATION Spec
CONSTANTS
  NCtx = 3
  NThreads = 2
  SizeRes = {0, 1, 8, 15}
  Pats = {1, 2}
  MaxLen = 7
  Mode = "check"
INVARIANTS TypeOK OneRunner ResumeExact CanariesIntact SavedInOwnStack EntryOK StacksDisjoint ReleasedOnce NoCrash
CHECK_DEADLOCK FALSE
