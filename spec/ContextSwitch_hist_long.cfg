\* generator (thorough): longer -simulate behaviours
SPECIFICATION Spec
CONSTANTS
  NCtx = 3
  NThreads = 2
  SizeRes = {0, 8, 15}
  Pats = {1, 2, 3}
  MaxLen = 24
  Mode = "hist"
INVARIANTS EmitHook ResumeExact CanariesIntact EntryOK ReleasedOnce NoCrash
CHECK_DEADLOCK FALSE
