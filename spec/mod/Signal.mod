#! CONSTANTS
CONSTANTS Signals,    \* fiber_signal_t objects (single waiter)
          MSignals    \* fiber_multi_signal_t objects ((counter, head) pair, any number of waiters)
\* FIBER_SIGNAL_RAISED, FIBER_SIGNAL_READY_TO_WAKE, FIBER_MULTI_SIGNAL_RAISED: the pointer value -1
RAISEDV == "#-1"
#! VARIABLES
,
    sigw = [s \in Signals |-> None],       \* fiber_signal_t.waiter: "null" | "#-1" | fiber
    msc = [s \in MSignals |-> 0],          \* fiber_multi_signal_t.data.counter
    msh = [s \in MSignals |-> None],       \* fiber_multi_signal_t.data.head: "null" | "#-1" | node
    nnext = [f \in Fibers |-> None],       \* next field of the MPSC node n_<f> of fiber f
    ndata = [f \in Fibers |-> None],       \* data field of that node
    \* ---- ghosts (never influence control)
    sigAbs = [s \in Signals |-> FALSE],    \* abstract signal: raised and not yet consumed by a wait
    sigRel = [f \in Fibers |-> 0],         \* raises that took f out of a signal and have not been consumed by f yet
    msAbsR = [s \in MSignals |-> FALSE],   \* abstract multi-signal: raised
    msAbsW = [s \in MSignals |-> <<>>],    \* abstract multi-signal: waiting fibers, most recent first
    msRel = [f \in Fibers |-> 0],
    msDeadRead = FALSE,                    \* a raise read head->next of a node whose fiber had been destroyed
    sgBad = {}
#! DEFINES
    NodeName(f) == "n_" \o f
    NodeNames == {NodeName(f) : f \in Fibers}
    NodeF == [n \in NodeNames |-> CHOOSE f \in Fibers : NodeName(f) = n]
    NodeDead(n) == n \in NodeNames /\ freed[NodeF[n]]
    \* fibers whose nodes are reachable from node n through the next fields (at most k)
    RECURSIVE ChainFrom(_, _)
    ChainFrom(n, k) == IF n \notin NodeNames \/ k = 0 THEN <<>> ELSE <<NodeF[n]>> \o ChainFrom(nnext[NodeF[n]], k - 1)
#! PROCEDURES
  \* ---- fiber_signal_wait(ws)
  procedure sig_wait(ws)
    variables swm = 0;
  {
   sw0: swm := ThreadOf(self);                  \* manager captured (fiber_manager_get())
        scratch[self] := None;                  \* this_fiber->scratch = NULL
   sw1: if (sigw[ws] = None) {                  \* CAS NO_WAITER -> this_fiber
          sigw[ws] := self;
   sw2:   fstate[self] := WAITING;
          mgr[swm].setloc := [o |-> self, fld |-> "scratch"] || mgr[swm].setval := RAISEDV;
          call yield(swm);
   sw3:   scratch[self] := None;
          if (sigRel[self] = 0) { sgBad := sgBad \cup {"a fiber waiting for a signal was resumed without a raise"} };
          sigRel[self] := IF sigRel[self] > 0 THEN sigRel[self] - 1 ELSE 0;
        };
   sw4: sigw[ws] := None;                       \* s->waiter = NO_WAITER (linearisation point of the wait)
        if (~sigAbs[ws]) { sgBad := sgBad \cup {"a signal wait returned although the signal had not been raised"} };
        sigAbs[ws] := FALSE;
        return;
  }

  \* ---- fiber_signal_raise(rs): rv[self] = 1 if a fiber was woken
  procedure sig_raise(rs)
    variables rold = None; rsm = 0;
  {
   sr0: if (sigw[rs] \in {None, RAISEDV}) {      \* exchange(&s->waiter, RAISED): nobody sleeping
          sigw[rs] := RAISEDV;
          sigAbs[rs] := TRUE;
          rv[self] := 0;
          return;
        } else {                                \* exchange(&s->waiter, RAISED): took the sleeper out
          rold := sigw[rs];
          sigRel[sigw[rs]] := sigRel[sigw[rs]] + 1;
          sigw[rs] := RAISEDV;
          sigAbs[rs] := TRUE;
        };
   sr1: sigw[rs] := None;                       \* s->waiter = NO_WAITER
        rsm := ThreadOf(self);                  \* fiber_manager_get()
   sr2: await scratch[rold] = RAISEDV;          \* spin until the sleeper's successor published READY_TO_WAKE
   sr3: fstate[rold] := READY;
        if (~saved[rold]) { sgBad := sgBad \cup {"a signal waiter was made READY before its context was saved"} };
   sr4: Push(rsm, rold);
        pendingWake[rold] := pendingWake[rold] + 1;
        rv[self] := 1;
        return;
  }

  \* ---- fiber_multi_signal_wait(mws)
  procedure msig_wait(mws)
    variables mwm = 0; mwc = 0; mwh = None;
  {
   mw0: mwm := ThreadOf(self);
        scratch[self] := None;
   mw1: ndata[self] := self;                    \* node = this_fiber->mpsc_fifo_node; node->data = this_fiber
   mw2: mwc := msc[mws];                        \* snapshot.counter (first)
   mw3: mwh := msh[mws];                        \* snapshot.head
        if (mwh = RAISEDV) {
   mw4:   if (msc[mws] = mwc /\ msh[mws] = mwh) {        \* compare_and_swap2: raised -> no waiter
            msc[mws] := mwc + 1;
            msh[mws] := None;
            if (~msAbsR[mws]) { sgBad := sgBad \cup {"a multi-signal wait consumed a raise that was never made"} };
            msAbsR[mws] := FALSE;
            return;
          } else {
            mwc := 0;
            mwh := None;
            goto mw2;
          }
        } else {
   mw5:   nnext[self] := mwh;                   \* node->next = snapshot.head
   mw6:   if (msc[mws] = mwc /\ msh[mws] = mwh) {        \* compare_and_swap2: push self
            msc[mws] := mwc + 1;
            msh[mws] := NodeName(self);
            msAbsW[mws] := <<self>> \o msAbsW[mws];
   mw7:     fstate[self] := WAITING;
            mgr[mwm].setloc := [o |-> self, fld |-> "scratch"] || mgr[mwm].setval := RAISEDV;
            call yield(mwm);
   mw8:     scratch[self] := None;
            if (msRel[self] = 0) { sgBad := sgBad \cup {"a fiber waiting for a multi-signal was resumed without a raise"} };
            msRel[self] := IF msRel[self] > 0 THEN msRel[self] - 1 ELSE 0;
            return;
          } else {
            mwc := 0;
            mwh := None;
            goto mw2;
          }
        }
  }

  \* ---- fiber_multi_signal_raise(mrs) / fiber_multi_signal_raise_strict(mrs): rv[self] = 1 if a fiber was woken
  procedure msig_raise(mrs, mrstrict)
    variables mrc = 0; mrh = None; mrn = None; mrw = None; mrm = 0;
  {
   mr0: mrc := msc[mrs];                        \* snapshot.counter (first)
   mr1: mrh := msh[mrs];                        \* snapshot.head
        if (mrh \in {None, RAISEDV}) {
          if (mrstrict) {
            \* raise_strict: nobody to wake, cpu_relax and retry
            goto mr0;
          };
   mr2:   if (msc[mrs] = mrc /\ msh[mrs] = mrh) {        \* compare_and_swap2: (none|raised) -> raised
            msc[mrs] := mrc + 1;
            msh[mrs] := RAISEDV;
            if (msAbsW[mrs] # <<>>) { sgBad := sgBad \cup {"a multi-signal raise was turned into 'raised' while a fiber was waiting"} };
            msAbsR[mrs] := TRUE;
            rv[self] := 0;
            return;
          } else {
            mrc := 0;
            mrh := None;
            goto mr0;
          }
        } else {
   mr3:   mrn := nnext[NodeF[mrh]];             \* new head = snapshot.head->next (read before the CAS; see the TODO in the code)
          if (NodeDead(mrh)) { msDeadRead := TRUE };
   mr4:   if (msc[mrs] = mrc /\ msh[mrs] = mrh) {        \* compare_and_swap2: pop the most recent waiter
            msc[mrs] := mrc + 1;
            msh[mrs] := mrn;
            if (msAbsW[mrs] = <<>>) {
              sgBad := sgBad \cup {"a multi-signal raise popped a node although no fiber was waiting"};
            } else {
              if (NodeName(Head(msAbsW[mrs])) # mrh) { sgBad := sgBad \cup {"a multi-signal raise popped a node that is not the most recent waiter"} };
              msRel[Head(msAbsW[mrs])] := msRel[Head(msAbsW[mrs])] + 1;
              msAbsW[mrs] := Tail(msAbsW[mrs]);
            };
   mr5:     mrw := ndata[NodeF[mrh]];           \* to_wake = head->data; to_wake->mpsc_fifo_node = head (same node)
            mrm := ThreadOf(self);              \* fiber_manager_get()
   mr6:     await scratch[mrw] = RAISEDV;       \* spin until the sleeper's successor published READY_TO_WAKE
   mr7:     fstate[mrw] := READY;
            if (~saved[mrw]) { sgBad := sgBad \cup {"a multi-signal waiter was made READY before its context was saved"} };
   mr8:     Push(mrm, mrw);
            pendingWake[mrw] := pendingWake[mrw] + 1;
            rv[self] := 1;
            return;
          } else {
            mrc := 0;
            mrh := None;
            mrn := None;
            goto mr0;
          }
        }
  }
#! PINNED
 @@ ("fiber_signal_wait:waiter:W" :> {"sw4"}) @@ ("fiber_signal_raise:waiter:W" :> {"sr1"})
 @@ ("fiber_multi_signal_raise:counter:R" :> {"mr0"}) @@ ("fiber_multi_signal_raise:head:R" :> {"mr1"}) @@ ("fiber_multi_signal_raise:next:R" :> {"mr3"})
 @@ ("fiber_multi_signal_raise_strict:counter:R" :> {"mr0"}) @@ ("fiber_multi_signal_raise_strict:head:R" :> {"mr1"}) @@ ("fiber_multi_signal_raise_strict:next:R" :> {"mr3"})
 @@ ("fiber_multi_signal_wait:counter:R" :> {"mw2"}) @@ ("fiber_multi_signal_wait:head:R" :> {"mw3"})
 @@ ("compare_and_swap2" :> {"mr2", "mr4", "mw4", "mw6"})
 @@ ("fiber_signal_wait:waiter:CAS" :> {"sw1"}) @@ ("fiber_signal_raise:waiter:XCHG" :> {"sr0"})
#! ACCESS
mr0 fiber_multi_signal_raise counter
mr1 fiber_multi_signal_raise head
mr3 fiber_multi_signal_raise next
mr2 fiber_multi_signal_raise counter   # (a failed compare_and_swap2 is silent)
mr4 fiber_multi_signal_raise counter
mw2 fiber_multi_signal_wait counter
mw3 fiber_multi_signal_wait head
mw4 fiber_multi_signal_wait counter
mw6 fiber_multi_signal_wait counter
#! OPS
         } else if (op[1] = "sigwait") {
           call sig_wait(op[2]);
         } else if (op[1] = "sigraise") {
           call sig_raise(op[2]);
         } else if (op[1] = "msigwait") {
           call msig_wait(op[2]);
         } else if (op[1] = "msigraise") {
           call msig_raise(op[2], FALSE);
         } else if (op[1] = "msigraisestrict") {
           call msig_raise(op[2], TRUE);
         } else if (op[1] = "msigawaitc") {
           \* test helper: yield until the multi-signal's counter has reached op[3]
   rw1:    if (msc[op[2]] < op[3]) {
             call yield(ThreadOf(self));
   rw2:      goto rw1;
           };
#! FIBERFIELDS
, "scratch"
#! MEMCASES
  ELSE IF o \in Signals THEN sigw[o]
  ELSE IF o \in MSignals THEN (IF fld = "counter" THEN msc[o] ELSE msh[o])
  ELSE IF o \in NodeNames THEN
      (IF freed[NodeF[o]] THEN "dead" ELSE IF fld = "next" THEN nnext[NodeF[o]] ELSE ndata[NodeF[o]])
#! MODELED
  \/ o \in Signals /\ fld = "waiter"
  \/ o \in MSignals /\ fld \in {"counter", "head"}
  \/ MSignals # {} /\ o \in NodeNames /\ fld \in {"data", "next"}
#! GROUPOF
  ELSE IF o \in Signals THEN "sigw"
  ELSE IF o \in MSignals THEN (IF fld = "counter" THEN "msc" ELSE "msh")
  ELSE IF o \in NodeNames /\ MSignals # {} THEN (IF fld = "next" THEN "nnext" ELSE "ndata")
#! GROUPVAL
    [] g = "sigw" -> sigw
    [] g = "msc" -> msc
    [] g = "msh" -> msh
    [] g = "nnext" -> <<nnext, freed>>
    [] g = "ndata" -> <<ndata, freed>>
#! FAITHFUL
} \cup (IF MSignals = {} THEN {} ELSE {"nnext", "ndata"}) \cup {"sigw", "msc", "msh"
#! FNPROC
,
           fiber_signal_wait |-> {"sig_wait"},
           fiber_signal_raise |-> {"sig_raise"},
           fiber_multi_signal_wait |-> {"msig_wait"},
           fiber_multi_signal_raise |-> {"msig_raise"},
           fiber_multi_signal_raise_strict |-> {"msig_raise"}
#! MONFIELDS
, sgraise |-> [s \in Signals \cup MSignals |-> 0], sgwcall |-> [s \in Signals \cup MSignals |-> 0],
  sgwret |-> [s \in Signals \cup MSignals |-> 0], sgwoken |-> [s \in Signals \cup MSignals |-> 0]
#! MONCASES
    \* signals, API level: every returned wait is matched by its own raise that was called before
    \* the wait returned (raises may coalesce, so there can be more raises than waits); a raise
    \* reports a woken fiber only for a wait that was called
    [] e.op \in {"sigraise", "msigraise", "msigraisestrict"} /\ e.ph = "call" -> [m EXCEPT !.sgraise[e.o] = @ + 1]
    [] e.op \in {"sigwait", "msigwait"} /\ e.ph = "call" -> [m EXCEPT !.sgwcall[e.o] = @ + 1]
    [] e.op \in {"sigwait", "msigwait"} /\ e.ph = "ret" ->
         IF m.sgwret[e.o] + 1 > m.sgraise[e.o]
         THEN MonBad(m, "a signal wait returned without a raise of its own (more returned waits than raises called)")
         ELSE [m EXCEPT !.sgwret[e.o] = @ + 1]
    [] e.op \in {"sigraise", "msigraise", "msigraisestrict"} /\ e.ph = "ret" /\ e.r = 1 ->
         IF m.sgwoken[e.o] + 1 > m.sgwcall[e.o]
         THEN MonBad(m, "more raises reported a woken fiber than waits were called (one waiter released twice)")
         ELSE [m EXCEPT !.sgwoken[e.o] = @ + 1]
#! POST
\* reachability witnesses (tools/witness.py): a raiser stands at its compare_and_swap2 with a snapshot
\* whose head is the list head again although the list changed in between - only the counter half of
\* the double word makes the exchange fail (node-reuse ABA)
MsAbaGuard == \E af \in ProcSet : pc[af] = "mr4" /\ msh[mrs[af]] = mrh[af] /\ msc[mrs[af]] # mrc[af]
MsAbaGuardNext == \E af \in ProcSet : pc[af] = "mr4" /\ msh[mrs[af]] = mrh[af] /\ msc[mrs[af]] # mrc[af]
                                       /\ nnext[NodeF[mrh[af]]] # mrn[af]

\* ---- signals (C11 signal clause, C20 multi-signal clause)
SignalOK == sgBad = {}
\* a raise is never lost: once raised (abstractly) and not yet consumed, no fiber is registered as sleeper
SigNotLost == \A s \in Signals : sigAbs[s] => sigw[s] \notin Fibers
SigRaisedIsAbs == \A s \in Signals : sigw[s] = RAISEDV => sigAbs[s]
\* the unsynchronised read of snapshot.head->next in fiber_multi_signal_raise[_strict] never
\* touches the node of a destroyed fiber (see the TODO in include/fiber_signal.h)
NoDeadNodeRead == ~msDeadRead
SigRelOnce == \A f \in Fibers : sigRel[f] <= 1 /\ msRel[f] <= 1
\* the waiter list of the implementation is exactly the abstract LIFO of waiting fibers;
\* 'raised' and waiters exclude each other
MsChainOK == \A s \in MSignals : /\ (msh[s] = RAISEDV) = msAbsR[s]
                                 /\ (msAbsR[s] => msAbsW[s] = <<>>)
                                 /\ ChainFrom(msh[s], Cardinality(Fibers) + 1) = msAbsW[s]
