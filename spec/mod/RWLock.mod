\* Fragment RWLock: fiber_rwlock.c on top of the runtime core (property C07).
\* One label per shared access of the C code: the plain read of rwlock->state.blob and the
\* __sync_bool_compare_and_swap on it (a failed CAS goes back to the read).  The waiter queues
\* are the core MPSC queues <lock>_rd / <lock>_wr (scenario key "mpscqs"); hand-off uses the
\* core's wake_mpsc (yield-and-retry while a counted waiter is not yet enqueued).
\* Scripts: rdlock/wrlock/tryrdlock/trywrlock/rdunlock/wrunlock <lock>, and the balanced
\* variants tryrdun/trywrun <lock> (try, then unlock if it succeeded).
#! CONSTANTS
CONSTANTS RWLocks     \* rwlock names; the waiter queues of lock l are the MPSC queues l_rd and l_wr
RwRQ(l) == l \o "_rd"
RwWQ(l) == l \o "_wr"
\* the 64-bit state word: write_locked:1, reader_count:21, waiting_readers:21, waiting_writers:21
RWZero == [wl |-> 0, rcnt |-> 0, wrd |-> 0, wwr |-> 0]
RwReaderMustWait(s) == s.wwr > 0 \/ s.wl = 1 \/ s.wrd > 0
RwReadOps == {"rdlock", "tryrdlock", "rdunlock"}
RwWriteOps == {"wrlock", "trywrlock", "wrunlock"}
#! VARIABLES
,
    rws = [l \in RWLocks |-> RWZero],
    \* ---- ghosts
    writerHolds = [l \in RWLocks |-> {}],   \* fibers that acquired for writing and have not released (release = the unlock CAS)
    readersHold = [l \in RWLocks |-> {}],   \* same for reading
    rwWaitW = [l \in RWLocks |-> {}],       \* writers that announced themselves (waiting_writers + 1) and have not returned from the wait
    rwWaitR = [l \in RWLocks |-> {}],       \* readers that announced themselves (waiting_readers + 1) and have not returned from the wait
    rwGrantW = [l \in RWLocks |-> 0],       \* ownership transferred by a release to a waiting writer that has not resumed yet
    rwGrantR = [l \in RWLocks |-> 0],       \* same, reader units
    rwBadRelease = FALSE                    \* a release left waiters behind on a lock that nobody holds
#! PROCEDURES
  \* ---- fiber_rwlock_rdlock(pRd)
  procedure rw_rdlock(pRd)
    variables sRd = RWZero;
  {
   rdl0: sRd := rws[pRd];                                   \* snapshot = rwlock->state.blob
   rdl1: if (rws[pRd] # sRd) {                              \* CAS failed
           goto rdl0;
         } else if (RwReaderMustWait(sRd)) {
           rws[pRd] := [sRd EXCEPT !.wrd = @ + 1];
           rwWaitR[pRd] := rwWaitR[pRd] \cup {self};
           call wait_mpsc(ThreadOf(self), RwRQ(pRd));
         } else {
           rws[pRd] := [sRd EXCEPT !.rcnt = @ + 1];
           readersHold[pRd] := readersHold[pRd] \cup {self};
           rv[self] := 1;
           return;
         };
   rdl2: \* resumed by a releaser that admitted the counted waiting readers
         rwWaitR[pRd] := rwWaitR[pRd] \ {self};
         rwGrantR[pRd] := rwGrantR[pRd] - 1;
         readersHold[pRd] := readersHold[pRd] \cup {self};
         rv[self] := 1;
         return;
  }

  \* ---- fiber_rwlock_wrlock(pWr)
  procedure rw_wrlock(pWr)
    variables sWr = RWZero;
  {
   wrl0: sWr := rws[pWr];
   wrl1: if (rws[pWr] # sWr) {
           goto wrl0;
         } else if (sWr # RWZero) {
           rws[pWr] := [sWr EXCEPT !.wwr = @ + 1];
           rwWaitW[pWr] := rwWaitW[pWr] \cup {self};
           call wait_mpsc(ThreadOf(self), RwWQ(pWr));
         } else {
           rws[pWr] := [sWr EXCEPT !.wl = 1];
           writerHolds[pWr] := writerHolds[pWr] \cup {self};
           rv[self] := 1;
           return;
         };
   wrl2: rwWaitW[pWr] := rwWaitW[pWr] \ {self};
         rwGrantW[pWr] := rwGrantW[pWr] - 1;
         writerHolds[pWr] := writerHolds[pWr] \cup {self};
         rv[self] := 1;
         return;
  }

  \* ---- fiber_rwlock_tryrdlock(pTr): rv[self] = 1 success, 0 failure; no call, hence no blocking
  procedure rw_tryrdlock(pTr)
    variables sTr = RWZero;
  {
   trl0: if (RwReaderMustWait(rws[pTr])) {                 \* snapshot taken, test on the local copy
           rv[self] := 0;
           return;
         } else {
           sTr := rws[pTr];
         };
   trl1: if (rws[pTr] # sTr) {
           goto trl0;
         } else {
           rws[pTr] := [sTr EXCEPT !.rcnt = @ + 1];
           readersHold[pTr] := readersHold[pTr] \cup {self};
           rv[self] := 1;
           return;
         }
  }

  \* ---- fiber_rwlock_trywrlock(pTw)
  procedure rw_trywrlock(pTw)
    variables sTw = RWZero;
  {
   twl0: if (rws[pTw] # RWZero) {
           rv[self] := 0;
           return;
         } else {
           sTw := rws[pTw];
         };
   twl1: if (rws[pTw] # sTw) {
           goto twl0;
         } else {
           rws[pTw] := [sTw EXCEPT !.wl = 1];
           writerHolds[pTw] := writerHolds[pTw] \cup {self};
           rv[self] := 1;
           return;
         }
  }

  \* ---- fiber_rwlock_rdunlock(pRu)
  procedure rw_rdunlock(pRu)
    variables sRu = RWZero;
  {
   rul0: sRu := rws[pRu];
   rul1: if (rws[pRu] # sRu) {
           goto rul0;
         } else if (sRu.rcnt = 1 /\ sRu.wwr > 0) {
           \* last reader, a writer waits: ownership goes to ONE writer in this CAS
           rws[pRu] := [sRu EXCEPT !.rcnt = 0, !.wl = 1, !.wwr = @ - 1];
           readersHold[pRu] := readersHold[pRu] \ {self};
           rwGrantW[pRu] := rwGrantW[pRu] + 1;
           call wake_mpsc(ThreadOf(self), RwWQ(pRu), 1);
         } else if (sRu.rcnt = 1 /\ sRu.wrd > 0) {
           \* last reader, only readers wait: ALL counted readers are admitted in this CAS
           rws[pRu] := [sRu EXCEPT !.rcnt = sRu.wrd, !.wrd = 0];
           readersHold[pRu] := readersHold[pRu] \ {self};
           rwGrantR[pRu] := rwGrantR[pRu] + sRu.wrd;
           call wake_mpsc(ThreadOf(self), RwRQ(pRu), sRu.wrd);
         } else {
           rws[pRu] := [sRu EXCEPT !.rcnt = @ - 1];
           readersHold[pRu] := readersHold[pRu] \ {self};
           if (sRu.rcnt = 1 /\ sRu.wwr + sRu.wrd > 0) { rwBadRelease := TRUE };
           rv[self] := 1;
           return;
         };
   rul2: rv[self] := 1;
         return;
  }

  \* ---- fiber_rwlock_wrunlock(pWu)
  procedure rw_wrunlock(pWu)
    variables sWu = RWZero;
  {
   wul0: sWu := rws[pWu];
   wul1: if (rws[pWu] # sWu) {
           goto wul0;
         } else if (sWu.wwr > 0) {
           \* write_locked stays 1: ownership goes to ONE waiting writer in this CAS
           rws[pWu] := [sWu EXCEPT !.wl = 1, !.wwr = @ - 1];
           writerHolds[pWu] := writerHolds[pWu] \ {self};
           rwGrantW[pWu] := rwGrantW[pWu] + 1;
           call wake_mpsc(ThreadOf(self), RwWQ(pWu), 1);
         } else if (sWu.wrd > 0) {
           rws[pWu] := [sWu EXCEPT !.wl = 0, !.rcnt = sWu.wrd, !.wrd = 0];
           writerHolds[pWu] := writerHolds[pWu] \ {self};
           rwGrantR[pWu] := rwGrantR[pWu] + sWu.wrd;
           call wake_mpsc(ThreadOf(self), RwRQ(pWu), sWu.wrd);
         } else {
           rws[pWu] := [sWu EXCEPT !.wl = 0];
           writerHolds[pWu] := writerHolds[pWu] \ {self};
           rv[self] := 1;
           return;
         };
   wul2: rv[self] := 1;
         return;
  }
#! OPS
         } else if (op[1] = "rdlock") {
           call rw_rdlock(op[2]);
         } else if (op[1] = "wrlock") {
           call rw_wrlock(op[2]);
         } else if (op[1] = "tryrdlock") {
           call rw_tryrdlock(op[2]);
         } else if (op[1] = "trywrlock") {
           call rw_trywrlock(op[2]);
         } else if (op[1] = "rdunlock") {
           call rw_rdunlock(op[2]);
         } else if (op[1] = "wrunlock") {
           call rw_wrunlock(op[2]);
         } else if (op[1] = "tryrdun") {
           call rw_tryrdlock(op[2]);
   rwo1:   if (rv[self] = 1) { call rw_rdunlock(op[2]); };
         } else if (op[1] = "trywrun") {
           call rw_trywrlock(op[2]);
   rwo2:   if (rv[self] = 1) { call rw_wrunlock(op[2]); };
#! DEFINES
    \* ---- API-level monitor of the rwlock operations (used by MonApi)
    RwBad(m, why) == IF m.bad = "" THEN [m EXCEPT !.bad = why] ELSE m
    RwIdleTry == [o |-> None, k |-> "-", j |-> FALSE]
    \* may a try of kind k by fiber g on lock l fail in monitor state m?
    \*  "r": only if a writer holds the lock or a write-side call of another fiber is in progress
    \*       (waiting readers exist only while a writer holds or waits);
    \*  "w": if anybody holds the lock or any call of another fiber is in progress
    RwJust(m, l, g, k) ==
      IF k = "r" THEN m.rwW[l] # None \/ (m.rwInW[l] \ {g}) # {}
      ELSE m.rwW[l] # None \/ m.rwR[l] # {} \/ ((m.rwInW[l] \cup m.rwInR[l]) \ {g}) # {}
    RwRefresh(m) ==
      [m EXCEPT !.rwTry = [g \in Fibers |->
          IF m.rwTry[g].k # "-" /\ ~m.rwTry[g].j /\ RwJust(m, m.rwTry[g].o, g, m.rwTry[g].k)
          THEN [m.rwTry[g] EXCEPT !.j = TRUE] ELSE m.rwTry[g]]]
    RwCall(m, e) ==
      LET ma == IF e.op \in RwWriteOps THEN [m EXCEPT !.rwInW[e.o] = @ \cup {e.f}]
                ELSE [m EXCEPT !.rwInR[e.o] = @ \cup {e.f}]
          mb == IF e.op = "rdunlock" THEN
                  (IF e.f \notin ma.rwR[e.o] THEN RwBad(ma, "rdunlock by a fiber that does not hold the lock for reading")
                   ELSE [ma EXCEPT !.rwR[e.o] = @ \ {e.f}])
                ELSE IF e.op = "wrunlock" THEN
                  (IF ma.rwW[e.o] # e.f THEN RwBad(ma, "wrunlock by a fiber that does not hold the lock for writing")
                   ELSE [ma EXCEPT !.rwW[e.o] = None])
                ELSE IF e.op = "tryrdlock" THEN [ma EXCEPT !.rwTry[e.f] = [o |-> e.o, k |-> "r", j |-> FALSE]]
                ELSE IF e.op = "trywrlock" THEN [ma EXCEPT !.rwTry[e.f] = [o |-> e.o, k |-> "w", j |-> FALSE]]
                ELSE ma
      IN RwRefresh(mb)
    RwRet(m, e) ==
      LET ma == IF e.op \in RwWriteOps THEN [m EXCEPT !.rwInW[e.o] = @ \ {e.f}]
                ELSE [m EXCEPT !.rwInR[e.o] = @ \ {e.f}]
          mb == IF e.op \in {"rdlock", "tryrdlock"} /\ e.r = 1 THEN
                  (IF ma.rwW[e.o] # None THEN RwBad(ma, "a reader was admitted while a writer holds the lock")
                   ELSE [ma EXCEPT !.rwR[e.o] = @ \cup {e.f}])
                ELSE IF e.op \in {"wrlock", "trywrlock"} /\ e.r = 1 THEN
                  (IF ma.rwW[e.o] # None THEN RwBad(ma, "two writers hold the lock")
                   ELSE IF ma.rwR[e.o] # {} THEN RwBad(ma, "a writer was admitted while readers hold the lock")
                   ELSE [ma EXCEPT !.rwW[e.o] = e.f])
                ELSE IF e.op \in {"rdlock", "wrlock", "rdunlock", "wrunlock"} /\ e.r # 1 THEN
                   RwBad(ma, "a blocking rwlock operation reported failure")
                ELSE IF e.op \in {"tryrdlock", "trywrlock"} /\ e.r = 0 /\ ~ma.rwTry[e.f].j THEN
                   RwBad(ma, "a try operation failed although immediate acquisition was legal during the whole call")
                ELSE ma
          mc == IF e.op \in {"tryrdlock", "trywrlock"} THEN [mb EXCEPT !.rwTry[e.f] = RwIdleTry] ELSE mb
      IN RwRefresh(mc)
#! MEMCASES
  ELSE IF o \in RWLocks THEN
      CASE fld = "st" -> <<rws[o].wl, rws[o].rcnt, rws[o].wrd, rws[o].wwr>>
        [] fld = "lo" -> rws[o].wl + 2 * rws[o].rcnt + 4194304 * (rws[o].wrd % 1024)
        [] fld = "hi" -> (rws[o].wrd \div 1024) + 2048 * rws[o].wwr
        [] fld = "rq" -> LinkedPrefix(wq[RwRQ(o)])
        [] fld = "rtailf" -> IF wq[RwRQ(o)] = <<>> THEN None ELSE Last(wq[RwRQ(o)]).f
        [] fld = "wq" -> LinkedPrefix(wq[RwWQ(o)])
        [] fld = "wtailf" -> IF wq[RwWQ(o)] = <<>> THEN None ELSE Last(wq[RwWQ(o)]).f
#! MODELED
  \/ o \in RWLocks /\ fld \in {"st", "lo", "hi", "rq", "rtailf", "wq", "wtailf"}
#! GROUPOF
  ELSE IF o \in RWLocks THEN (IF fld \in {"st", "lo", "hi"} THEN "rws" ELSE "wq")
#! GROUPVAL
    [] g = "rws" -> rws
#! FAITHFUL
, "rws"
#! PINNED
 @@ ("fiber_rwlock_rdlock:hi:R" :> {"rdl0"}) @@ ("fiber_rwlock_rdlock:lo:R" :> {"rdl0"}) @@ ("fiber_rwlock_rdlock:hi:CAS" :> {"rdl1"}) @@ ("fiber_rwlock_rdlock:lo:CAS" :> {"rdl1"})
 @@ ("fiber_rwlock_wrlock:hi:R" :> {"wrl0"}) @@ ("fiber_rwlock_wrlock:lo:R" :> {"wrl0"}) @@ ("fiber_rwlock_wrlock:hi:CAS" :> {"wrl1"}) @@ ("fiber_rwlock_wrlock:lo:CAS" :> {"wrl1"})
 @@ ("fiber_rwlock_tryrdlock:hi:R" :> {"trl0"}) @@ ("fiber_rwlock_tryrdlock:lo:R" :> {"trl0"}) @@ ("fiber_rwlock_tryrdlock:hi:CAS" :> {"trl1"}) @@ ("fiber_rwlock_tryrdlock:lo:CAS" :> {"trl1"})
 @@ ("fiber_rwlock_trywrlock:hi:R" :> {"twl0"}) @@ ("fiber_rwlock_trywrlock:lo:R" :> {"twl0"}) @@ ("fiber_rwlock_trywrlock:hi:CAS" :> {"twl1"}) @@ ("fiber_rwlock_trywrlock:lo:CAS" :> {"twl1"})
 @@ ("fiber_rwlock_rdunlock:hi:R" :> {"rul0"}) @@ ("fiber_rwlock_rdunlock:lo:R" :> {"rul0"}) @@ ("fiber_rwlock_rdunlock:hi:CAS" :> {"rul1"}) @@ ("fiber_rwlock_rdunlock:lo:CAS" :> {"rul1"})
 @@ ("fiber_rwlock_wrunlock:hi:R" :> {"wul0"}) @@ ("fiber_rwlock_wrunlock:lo:R" :> {"wul0"}) @@ ("fiber_rwlock_wrunlock:hi:CAS" :> {"wul1"}) @@ ("fiber_rwlock_wrunlock:lo:CAS" :> {"wul1"})
#! FNPROC
,
           fiber_rwlock_rdlock |-> {"rw_rdlock"},
           fiber_rwlock_wrlock |-> {"rw_wrlock"},
           fiber_rwlock_tryrdlock |-> {"rw_tryrdlock"},
           fiber_rwlock_trywrlock |-> {"rw_trywrlock"},
           fiber_rwlock_rdunlock |-> {"rw_rdunlock"},
           fiber_rwlock_wrunlock |-> {"rw_wrunlock"}
#! MONFIELDS
, rwW |-> [l \in RWLocks |-> None], rwR |-> [l \in RWLocks |-> {}],
  rwInW |-> [l \in RWLocks |-> {}], rwInR |-> [l \in RWLocks |-> {}],
  rwTry |-> [f \in Fibers |-> RwIdleTry]
#! MONCASES
    [] e.op \in (RwReadOps \cup RwWriteOps) /\ e.ph = "call" -> RwCall(m, e)
    [] e.op \in (RwReadOps \cup RwWriteOps) /\ e.ph = "ret" -> RwRet(m, e)
#! POST
\* A writer holds the lock alone; any number of readers may share it.
RWExclusion == \A l \in RWLocks : /\ Cardinality(writerHolds[l]) <= 1
                                  /\ (writerHolds[l] # {} => readersHold[l] = {})
\* The state word counts exactly the holders (including ownership already transferred to a
\* waiter that has not resumed yet) and exactly the announced, not yet admitted waiters.
RWWordOK == \A l \in RWLocks :
   /\ rws[l].wl \in {0, 1}
   /\ rws[l].wl = Cardinality(writerHolds[l]) + rwGrantW[l]
   /\ rws[l].rcnt = Cardinality(readersHold[l]) + rwGrantR[l]
   /\ (rws[l].wl = 1 => rws[l].rcnt = 0)
   /\ rwGrantW[l] >= 0 /\ rwGrantR[l] >= 0
   /\ rws[l].wwr = Cardinality(rwWaitW[l]) - rwGrantW[l]
   /\ rws[l].wrd = Cardinality(rwWaitR[l]) - rwGrantR[l]
\* Nobody waits for a lock that nobody holds: every release that leaves waiters has handed
\* the lock over in the same CAS (to one writer, or to all counted readers); readers wait
\* only because of a writer that holds or waits.
RWNoOrphanWaiters == /\ ~rwBadRelease
                     /\ \A l \in RWLocks :
                          /\ (rws[l].wwr + rws[l].wrd > 0 => (rws[l].wl = 1 \/ rws[l].rcnt > 0))
                          /\ (rws[l].wrd > 0 => (rws[l].wl = 1 \/ rws[l].wwr > 0))
\* The try variants never leave the CPU.
RWTryNeverBlocks == \A f \in Fibers : pc[f] \in {"trl0", "trl1", "twl0", "twl1"} => fstate[f] = RUNNING
\* balanced scripts: when the main fiber has joined everybody the lock is free and its queues are empty
RWFinalFree == finished => \A l \in RWLocks : rws[l] = RWZero /\ wq[RwRQ(l)] = <<>> /\ wq[RwWQ(l)] = <<>>
                                             /\ rwWaitW[l] = {} /\ rwWaitR[l] = {}
