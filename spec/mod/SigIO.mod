#! INCLUDE Signal
#! INCLUDE IOWait
