#! CONSTANTS
CONSTANTS Conds       \* condition variable names; the waiter queue of cond c is the MPSC queue c,
                      \* its internal mutex is the core mutex IM(c) (both must be in MpscQs / Mutexes)
IM(c) == c \o "_im"
#! VARIABLES
,
    cvcount = [c \in Conds |-> 0],        \* cond->waiter_count
    \* ---- ghosts of property C05 (never influence control)
    cvreg = [c \in Conds |-> {}],         \* fibers that began waiting (count incremented under the user mutex), not yet back from the queue
    cvregAt = [f \in Fibers |-> 0],       \* value of cvclaimed[c] when f began its current wait
    cvclaimed = [c \in Conds |-> 0],      \* wake-ups granted by signal / broadcast
    cvreleased = [c \in Conds |-> 0],     \* waiters that came back from the waiter queue
    cvbad = ""
#! DEFINES
    \* registered waiters that no granted wake-up is owed to yet
    CvUnclaimed(c) == Cardinality(cvreg[c]) - (cvclaimed[c] - cvreleased[c])
#! PROCEDURES
  \* ---- fiber_cond_wait(cwc, cwm)
  procedure cond_wait(cwc, cwm)
  {
   cw0: \* atomic_fetch_add(&cond->waiter_count, 1); then, before the next shared access,
        \* fiber_manager_wait_in_mpsc_queue_and_unlock: manager->mutex_to_unlock = mutex
        cvcount[cwc] := cvcount[cwc] + 1;
        mgr[ThreadOf(self)].mtx := cwm;
        if (self \notin holder[cwm]) {
          cvbad := "cond_wait called by a fiber that does not hold the mutex (invalid script)";
        };
        cvreg[cwc] := cvreg[cwc] \cup {self};          \* "began waiting"
        cvregAt[self] := cvclaimed[cwc];
        holder[cwm] := holder[cwm] \ {self};           \* from here on the mutex belongs to the deferred unlock
        call wait_mpsc(ThreadOf(self), cwc);
   cw1: \* back from the waiter queue: somebody popped and scheduled this fiber
        cvreleased[cwc] := cvreleased[cwc] + 1;
        cvreg[cwc] := cvreg[cwc] \ {self};
        if (cvclaimed[cwc] <= cvregAt[self]) {
          cvbad := "waiter released although no signal/broadcast was granted after it began waiting";
        };
        call lock(cwm);
   cw2: if (self \notin holder[cwm]) {
          cvbad := "cond_wait returns without the mutex";
        };
        return;
  }

  \* ---- fiber_cond_signal(csc)
  procedure cond_signal(csc)
    variables csv = 0;
  {
   cs0: call lock(IM(csc));
   cs1: \* atomic_fetch_sub(&cond->waiter_count, 1) - 1
        cvcount[csc] := cvcount[csc] - 1;
        csv := cvcount[csc];
        if (csv >= 0) {
          if (CvUnclaimed(csc) <= 0) {
            cvbad := "signal granted a wake-up although no unclaimed waiter was registered";
          };
          cvclaimed[csc] := cvclaimed[csc] + 1;
          call wake_mpsc(ThreadOf(self), csc, 1);
        } else {
          if (CvUnclaimed(csc) > 0) {
            cvbad := "signal lost: a waiter had begun waiting but the signal released nobody";
          };
   cs2:   cvcount[csc] := cvcount[csc] + 1;
        };
   cs3: call unlock(IM(csc));
   cs4: return;
  }

  \* ---- fiber_cond_broadcast(cbc)
  procedure cond_broadcast(cbc)
    variables cbo = 0;
  {
   cb0: call lock(IM(cbc));
   cb1: \* atomic_exchange(&cond->waiter_count, 0)
        cbo := cvcount[cbc];
        cvcount[cbc] := 0;
        if (cbo # CvUnclaimed(cbc)) {
          cvbad := "broadcast does not release exactly the waiters that had begun waiting";
        };
        if (cbo # 0) {
          cvclaimed[cbc] := cvclaimed[cbc] + cbo;
          call wake_mpsc(ThreadOf(self), cbc, cbo);
        };
   cb2: call unlock(IM(cbc));
   cb3: return;
  }

  \* ---- test helper: yield until cond->waiter_count >= awn
  procedure await_waiters(awc, awn)
  {
   aw0: if (cvcount[awc] < awn) {
          call yield(ThreadOf(self));
   aw1:   goto aw0;
        };
   aw2: return;
  }
#! OPS
         } else if (op[1] = "condwait") {
           call cond_wait(op[2], op[3]);
         } else if (op[1] = "signal") {
           call cond_signal(op[2]);
         } else if (op[1] = "broadcast") {
           call cond_broadcast(op[2]);
         } else if (op[1] = "awaitwaiters") {
           call await_waiters(op[2], op[3]);
#! MEMCASES
  ELSE IF o \in Conds THEN
      CASE fld = "count" -> cvcount[o]
        [] fld = "q" -> LinkedPrefix(wq[o])
        [] fld = "tailf" -> IF wq[o] = <<>> THEN None ELSE Last(wq[o]).f
#! MODELED
  \/ o \in Conds /\ fld \in {"count", "q", "tailf"}
#! GROUPOF
  ELSE IF o \in Conds THEN (IF fld = "count" THEN "cvcount" ELSE "wq")
#! GROUPVAL
    [] g = "cvcount" -> cvcount
#! FAITHFUL
, "cvcount"
#! PINNED
 @@ ("fiber_cond_wait:count:RMW" :> {"cw0"}) @@ ("fiber_cond_signal:count:RMW" :> {"cs1", "cs2"}) @@ ("fiber_cond_broadcast:count:XCHG" :> {"cb1"})
 @@ ("fiber_cond_broadcast:count:R" :> {}) @@ ("fiber_cond_signal:count:R" :> {}) @@ ("fiber_cond_wait:count:R" :> {})
#! FNPROC
,
           fiber_cond_wait |-> {"cond_wait"},
           fiber_cond_signal |-> {"cond_signal"},
           fiber_cond_broadcast |-> {"cond_broadcast"}
#! MONFIELDS
, cvcalls |-> [c \in Conds |-> 0], cvrets |-> [c \in Conds |-> 0], cvbcalls |-> [c \in Conds |-> 0],
  cvwrets |-> [c \in Conds |-> 0], cvseen |-> [f \in Fibers |-> 0]
#! MONCASES
    \* history-level part of C05 (what call/return records alone can decide):
    \* a wait returns only if some signal/broadcast of that cond had not yet returned when the
    \* wait was called (it was in progress or was called later); without any broadcast in the
    \* history the number of returned waits never exceeds the number of signal calls.
    \* "returns holding the mutex" is checked by the core's mutex monitor through the
    \* unlock-call / lock-ret records the driver writes around fiber_cond_wait.
    [] e.op \in {"signal", "broadcast"} /\ e.ph = "call" ->
         [m EXCEPT !.cvcalls[e.o] = @ + 1, !.cvbcalls[e.o] = IF e.op = "broadcast" THEN @ + 1 ELSE @]
    [] e.op \in {"signal", "broadcast"} /\ e.ph = "ret" -> [m EXCEPT !.cvrets[e.o] = @ + 1]
    [] e.op = "condwait" /\ e.ph = "call" -> [m EXCEPT !.cvseen[e.f] = m.cvrets[e.o]]
    [] e.op = "condwait" /\ e.ph = "ret" ->
         LET mnew == [m EXCEPT !.cvwrets[e.o] = @ + 1] IN
         IF m.cvcalls[e.o] <= m.cvseen[e.f]
         THEN MonBad(mnew, "cond wait returned although every signal/broadcast so far had returned before the wait was called")
         ELSE IF m.cvbcalls[e.o] = 0 /\ mnew.cvwrets[e.o] > m.cvcalls[e.o]
         THEN MonBad(mnew, "more cond waits returned than signals were called (no broadcast in the history)")
         ELSE mnew
#! POST
\* C05 on the design: no release without a granted wake-up; every decision of signal/broadcast
\* agrees with the set of fibers that began waiting; wait returns with the mutex (cvbad);
\* when nothing can run any more every granted wake-up has been delivered.
CondNoSpurious == \A c \in Conds : cvreleased[c] <= cvclaimed[c]
CondGhostOK == cvbad = ""
CondNoLostSignal == Quiescent => \A c \in Conds : cvclaimed[c] = cvreleased[c]
\* diagnostic, not part of C05 and not in any scenario's invariant list: fiber_manager_do_maintenance
\* still works on the manager it captured at entry after fiber_mutex_unlock_internal yielded and the
\* fiber migrated (DESIGN.md 11.8); use as INVARIANT to obtain a witness of that situation
MaintOnEntryThread == \A f \in Fibers : (OnCpu(f) /\ pc[f] \in {"m5", "m6", "m6b"}) => mm[f] = ThreadOf(f)
