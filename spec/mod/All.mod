#! INCLUDE Barrier
#! INCLUDE Cond
#! INCLUDE Semaphore
#! INCLUDE RWLock
#! INCLUDE Channel
#! INCLUDE Sleep
