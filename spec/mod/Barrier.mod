#! CONSTANTS
CONSTANTS Barriers,   \* barrier names; waiter queues are named <barrier>_0 and <barrier>_1 (round parity)
          BCount      \* [barrier -> count]
BQ(b, par) == b \o "_" \o ToString(par)
#! VARIABLES
,
    bctr = [b \in Barriers |-> 0],
    brounds = [f \in Fibers |-> 0],      \* ghost: barrier waits this fiber has returned from
    bentered = [f \in Fibers |-> 0],     \* ghost: barrier waits this fiber has entered
    earlyRelease = FALSE
#! PROCEDURES
  \* ---- fiber_barrier_wait(bb): rv[self] = 1 for the serial fiber
  procedure barrier_wait(bb)
    variables bv = 0;
  {
   br0: bctr[bb] := bctr[bb] + 1;
        bv := bctr[bb];
        bentered[self] := bentered[self] + 1;
   br1: if (bv % BCount[bb] = 0) {
          call wake_mpsc(ThreadOf(self), BQ(bb, ((bv - 1) \div BCount[bb]) % 2), BCount[bb] - 1);
   br2:   rv[self] := 1;
        } else {
          call wait_mpsc(ThreadOf(self), BQ(bb, ((bv - 1) \div BCount[bb]) % 2));
   br3:   rv[self] := 0;
        };
   br4: brounds[self] := brounds[self] + 1;
        \* nobody passes round k before BCount fibers entered their k-th wait
        if (Cardinality({f \in Fibers : bentered[f] >= brounds[self]}) < BCount[bb]) {
          earlyRelease := TRUE;
        };
        return;
  }
#! OPS
         } else if (op[1] = "barrier") {
           call barrier_wait(op[2]);
#! MEMCASES
  ELSE IF o \in Barriers THEN
      CASE fld = "counter" -> bctr[o]
        [] fld = "q0" -> LinkedPrefix(wq[BQ(o, 0)])
        [] fld = "tailf0" -> IF wq[BQ(o, 0)] = <<>> THEN None ELSE Last(wq[BQ(o, 0)]).f
        [] fld = "q1" -> LinkedPrefix(wq[BQ(o, 1)])
        [] fld = "tailf1" -> IF wq[BQ(o, 1)] = <<>> THEN None ELSE Last(wq[BQ(o, 1)]).f
#! MODELED
  \/ o \in Barriers /\ fld \in {"counter", "q0", "tailf0", "q1", "tailf1"}
#! GROUPOF
  ELSE IF o \in Barriers THEN (IF fld = "counter" THEN "bctr" ELSE "wq")
#! GROUPVAL
    [] g = "bctr" -> bctr
#! FAITHFUL
, "bctr"
#! PINNED
 @@ ("fiber_barrier_wait:ctr:RMW" :> {"br0"})
#! FNPROC
,
           fiber_barrier_wait |-> {"barrier_wait"}
#! MONFIELDS
, bcalls |-> [f \in Fibers |-> 0], brets |-> [f \in Fibers |-> 0], bserial |-> {}
#! MONCASES
    [] e.op = "barrier" /\ e.ph = "call" -> [m EXCEPT !.bcalls[e.f] = @ + 1]
    [] e.op = "barrier" /\ e.ph = "ret" ->
         LET rk == m.brets[e.f] + 1
             mnew == [m EXCEPT !.brets[e.f] = rk, !.bserial = IF e.r = 1 THEN @ \cup {<<e.o, rk>>} ELSE @] IN
         IF Cardinality({f \in Fibers : m.bcalls[f] >= rk}) < BCount[e.o]
         THEN MonBad(mnew, "a fiber returned from its k-th barrier wait before count fibers had entered their k-th wait")
         ELSE IF e.r = 1 /\ <<e.o, rk>> \in m.bserial
         THEN MonBad(mnew, "two serial fibers in one barrier round")
         ELSE mnew
#! POST
NoEarlyRelease == ~earlyRelease
