#! CONSTANTS
CONSTANTS MaxTicks,       \* bound on generated timer ticks (exhaustive runs)
          ReadNextFirst,  \* TRUE: wake_sleepers reads node->next before scheduling the sleeper
          TickMs          \* FIBER_TIME_RESOLUTION_MS
\* sleepers: sequence of chains [wt, fs] sorted by wake time; a new sleeper with an
\* existing key is linked right after the head of that chain (waiter_insert)
SleepInsert(s, wt, f) ==
  IF \E i \in 1..Len(s) : s[i].wt = wt
  THEN [i \in 1..Len(s) |-> IF s[i].wt = wt
                            THEN [wt |-> wt, fs |-> <<Head(s[i].fs), f>> \o Tail(s[i].fs)]
                            ELSE s[i]]
  ELSE LET pos == Cardinality({i \in 1..Len(s) : s[i].wt < wt})
       IN SubSeq(s, 1, pos) \o <<[wt |-> wt, fs |-> <<f>>]>> \o SubSeq(s, pos + 1, Len(s))
#! VARIABLES
,
    tcount = 0,                            \* timer_trigger_count
    pendingTicks = 0,                      \* expirations the kernel holds for the timer fd
    ticksGen = 0,                          \* ghost: ticks generated so far
    sleepers = <<>>,
    sll = [ticket |-> 0, users |-> 0],     \* sleep_spinlock (ticket lock)
    ptk = [f \in Fibers |-> 0],
    backFromSleep = {},                    \* ghost: fibers that returned from fiber_sleep since they were chained
    staleRead = FALSE,
    sleepWakes = [f \in Fibers |-> 0]      \* ghost: wake-ups delivered per fiber
#! PROCEDURES
  \* ---- fiber_spinlock_lock(&sleep_spinlock)
  procedure spin_lock_sleep()
    variables myt = 0;
  {
   sk0: myt := sll.users;
        sll.users := sll.users + 1;
   sk1: await sll.ticket = myt;
        return;
  }

  \* ---- fiber_sleep: sms = seconds*1000 + useconds/1000 + 1
  procedure fsleep(sms)
  {
   sl0: call spin_lock_sleep();
   sl1: sleepers := SleepInsert(sleepers, tcount + sms, self);
        backFromSleep := backFromSleep \ {self};
   sl2: fstate[self] := WAITING;
        mgr[ThreadOf(self)].spin := "sleeplock";
        call yield(ThreadOf(self));
   sl3: backFromSleep := backFromSleep \cup {self};
        return;
  }

  \* ---- fiber_event_wake_sleepers(manager wsm, trigger_count wcnt)
  procedure wake_sleepers(wsm, wcnt)
    variables chain = <<>>; tw = None;
  {
   ws0: call spin_lock_sleep();
   ws1: tcount := tcount + wcnt;
   ws2: while (sleepers # <<>> /\ sleepers[1].wt < tcount) {
          chain := sleepers[1].fs;
          sleepers := Tail(sleepers);
   ws3:   while (chain # <<>>) {
            tw := Head(chain);
            if (ReadNextFirst) { chain := Tail(chain) };
   ws3a:    fstate[tw] := READY;
   ws3b:    Push(wsm, tw);
            pendingWake[tw] := pendingWake[tw] + 1;
            sleepWakes[tw] := sleepWakes[tw] + 1;
   ws3c:    if (~ReadNextFirst) {
              \* to_wake = to_wake->next: the node lives on tw's stack
              if (tw \in backFromSleep) { staleRead := TRUE };
              chain := Tail(chain);
            };
          };
        };
   ws4: sll.ticket := sll.ticket + 1;
        return;
  }
#! OPS
         } else if (op[1] = "sleep") {
           call fsleep(op[2] + 1);
         } else if (op[1] = "sleepsu") {
           \* fiber_sleep(seconds, useconds): one tick per requested millisecond, plus one
           call fsleep(op[2] * 1000 + (op[3] \div 1000) + 1);
         } else if (op[1] = "advance_s") {
           \* the environment lets op[2] seconds' worth of ticks (and two more) expire at once - a process
           \* that was stopped, a suspended VM: the poller reads the whole expiration count in one go
           pendingTicks := pendingTicks + op[2] * 1000 + 2;
#! MAINT_SPIN
   m5b:  sll.ticket := sll.ticket + 1;
#! IDLE
         if (pendingTicks > 0) {
           \* epoll reports the timer; read() takes the expiration count
           ptk[self] := pendingTicks;
           pendingTicks := 0;
           call wake_sleepers(tm, ptk[self]);
         };
   ti1:  skip;
#! PROCESSES
  \* the environment: the interval timer expires
  process (envp = "env")
  {
   ev0: while (TRUE) {
          pendingTicks := pendingTicks + 1;
          ticksGen := ticksGen + 1;
        }
  }
#! MCENV
 \/ envp
#! MEMCASES
  ELSE IF o = "ticks" THEN tcount
  ELSE IF o = "sleeplock" THEN (IF fld = "ticket" THEN sll.ticket ELSE sll.users)
  ELSE IF o = "sleepers" THEN [i \in 1..Len(sleepers) |-> <<sleepers[i].wt, sleepers[i].fs>>]
#! MODELED
  \/ o = "ticks" \/ o = "sleeplock" \/ (o = "sleepers" /\ fld = "tree")
#! GROUPOF
  ELSE IF o = "ticks" THEN "tcount"
  ELSE IF o = "sleeplock" THEN "sll"
  ELSE IF o = "sleepers" /\ fld = "tree" THEN "sleepers"
#! GROUPVAL
    [] g = "tcount" -> tcount
    [] g = "sll" -> sll
    [] g = "sleepers" -> sleepers
#! FAITHFUL
, "tcount", "sll", "sleepers"
#! FNPROC
,
           fiber_sleep |-> {"fsleep"},
           waiter_insert |-> {"fsleep"},
           fiber_event_wake_sleepers |-> {"wake_sleepers"},
           waiter_remove_less_than |-> {"wake_sleepers"},
           fiber_spinlock_lock |-> {"spin_lock_sleep"},
           fiber_spinlock_unlock |-> {"maintenance", "wake_sleepers"},
           fiber_poll_events_internal |-> {"mf"}
#! MONFIELDS
, ticks |-> 0, sleepat |-> [f \in Fibers |-> 0], advs |-> 0, advat |-> [f \in Fibers |-> 0]
#! MONCASES
    [] e.op = "sleep" /\ e.ph = "call" -> [m EXCEPT !.sleepat[e.f] = m.ticks]
    \* fiber_sleep(s, u) with arbitrary arguments.  Durations are compared in milliseconds while they fit
    \* TLC's integers and in whole seconds beyond (s >= 2000000); advance_s moves virtual time by
    \* e.n seconds' worth of ticks (each tick stands for TickMs milliseconds of real time).
    [] e.op = "sleepsu" /\ e.ph = "call" -> [m EXCEPT !.sleepat[e.f] = m.ticks, !.advat[e.f] = m.advs]
    [] e.op = "sleepsu" /\ e.ph = "ret" ->
         LET dticks == m.ticks - m.sleepat[e.f] + 1
             dadv == m.advs - m.advat[e.f] IN
         IF e.s < 2000000
         THEN (IF dadv = 0 /\ dticks * TickMs <= e.s * 1000 + (e.u \div 1000)
               THEN MonBad(m, "sleep returned before the requested duration had elapsed") ELSE m)
         ELSE (IF (dticks * TickMs) \div 1000 + (dadv + 1) * TickMs + 1 < e.s
               THEN MonBad(m, "sleep returned before the requested duration had elapsed") ELSE m)
    [] e.op = "advance_s" /\ e.ph = "call" -> [m EXCEPT !.advs = @ + e.n]
    [] e.op = "env:tick" -> [m EXCEPT !.ticks = @ + 1]      \* (monitor-only validation; TEnv otherwise)
    \* virtual time: the call happened after tick sleepat, the return before tick ticks+1,
    \* so the fiber was suspended for less than (ticks - sleepat + 1) * TickMs milliseconds
    [] e.op = "sleep" /\ e.ph = "ret" ->
         IF (m.ticks - m.sleepat[e.f] + 1) * TickMs <= e.n
         THEN MonBad(m, "sleep returned before the requested duration had elapsed")
         ELSE m
#! TRACEACTIONS
\* environment event: the timer expired once more
TEnv == /\ tl <= Len(Traces[tk])
        /\ Ev.k = "env"
        /\ envp
        /\ mon' = [mon EXCEPT !.ticks = @ + 1]
        /\ tl' = tl + 1
        /\ UNCHANGED <<tk, xm>>
#! TRACENEXT
 \/ TEnv
#! POST
NoStaleNodeRead == ~staleRead
TickBound == ticksGen <= MaxTicks
WokenOncePerSleep == \A f \in Fibers : pendingWake[f] <= 1
