#! CONSTANTS
CONSTANTS Sems,      \* semaphore names
          SemInit    \* [semaphore -> initial value >= 0]
\* the manager slot mpmc_to_push.fifo holds &sem->waiters, rendered "<sem>.waiters"
SemQ(s) == s \o ".waiters"
SemOfQ(qn) == CHOOSE s \in Sems : SemQ(s) = qn
#! VARIABLES
,
    semc = [s \in Sems |-> SemInit[s]],      \* fiber_semaphore_t.counter
    mq = [s \in Sems |-> <<>>],              \* MPMC waiter FIFO, atomic abstract form: fibers, oldest first
    \* ---- ghosts (never influence control)
    semPosts = [s \in Sems |-> 0],           \* posts begun
    semPosting = [s \in Sems |-> 0],         \* posts in progress (post_internal entered, not returned)
    semSucc = [s \in Sems |-> 0],            \* successful wait / trywait
    semBlocked = [s \in Sems |-> {}],        \* fibers that announced themselves (counter went below 0) and were not popped yet
    semPending = [s \in Sems |-> {}],        \* fibers inside the slow path of wait (announced, not yet returned)
    semBadWake = FALSE,                      \* a waiter popped from the queue was not in state WAITING
    semTryBad = FALSE                        \* trywait succeeded from a counter <= 0
#! PROCEDURES
  \* ---- fiber_manager_wait_in_mpmc_queue(manager pwm, fifo of semaphore pws)
  procedure wait_mpmc(pwm, pws)
  {
   wp0: fstate[self] := WAITING;
        \* the push is deferred: the NEXT fiber on this kernel thread performs it in do_maintenance
        mgr[pwm].mpmcq := SemQ(pws) || mgr[pwm].mpmcf := self;
   wp1: \* fiber_manager_get_mpmc_node() (atomic section, nothing tracked), node->value = this_fiber
        call yield(pwm);
        return;
  }

  \* ---- fiber_manager_wake_from_mpmc_queue(manager xkm, fifo of semaphore xks, count xkcount)
  \* note the decrement of count on every successful pop (latent oddity: with count > 1 the
  \* loop stops after ceil(count/2) wake-ups); the semaphore only uses count = 0 (one attempt)
  procedure wake_mpmc(xkm, xks, xkcount)
    variables xkw = 0; xkx = None;
  {
   wk1: if (Len(mq[xks]) > 0) {              \* mpmc_fifo_trypop (atomic section)
          xkx := Head(mq[xks]);
          mq[xks] := Tail(mq[xks]);
          semBlocked[xks] := semBlocked[xks] \ {xkx};
          xkcount := xkcount - 1;
   wk2:   semBadWake := semBadWake \/ fstate[xkx] # WAITING;
          fstate[xkx] := READY;
   wk3:   Push(xkm, xkx);
          pendingWake[xkx] := pendingWake[xkx] + 1;
          xkw := xkw + 1;
        } else if (xkcount > 0) {
   wk4:   skip;                              \* cpu_relax()
        };
   wk5: if (xkw < xkcount) { goto wk1 };
   wk6: rv[self] := xkw;
        return;
  }

  \* ---- fiber_semaphore_wait(wsem)
  procedure sem_wait(wsem)
  {
   sa0: semc[wsem] := semc[wsem] - 1;        \* atomic_fetch_sub
        if (semc[wsem] >= 0) {
          semSucc[wsem] := semSucc[wsem] + 1;
          rv[self] := 1;
          return;
        } else {
          semBlocked[wsem] := semBlocked[wsem] \cup {self};
          semPending[wsem] := semPending[wsem] \cup {self};
        };
   sa1: call wait_mpmc(ThreadOf(self), wsem);
   sa2: semSucc[wsem] := semSucc[wsem] + 1;
        semPending[wsem] := semPending[wsem] \ {self};
        rv[self] := 1;
        return;
  }

  \* ---- fiber_semaphore_trywait(tsem): rv[self] = 1 success, 0 failure; no blocking label
  procedure sem_trywait(tsem)
    variables tcnt = 0;
  {
   sy0: if (semc[tsem] <= 0) {               \* atomic load
          rv[self] := 0;
          return;
        } else {
          tcnt := semc[tsem];
        };
   sy1: if (semc[tsem] = tcnt) {             \* compare-exchange tcnt -> tcnt - 1
          semTryBad := semTryBad \/ semc[tsem] <= 0;
          semc[tsem] := tcnt - 1;
          semSucc[tsem] := semSucc[tsem] + 1;
          rv[self] := 1;
          return;
        } else {
          goto sy0;
        }
  }

  \* ---- fiber_semaphore_post_internal(psem): rv[self] = 1 if a waiter was woken
  \* The inner loop spins WITHOUT cpu_relax while counter < 0 and the queue is empty
  \* (an announced waiter whose push is still deferred in some manager's slot): the
  \* failing iteration sx0 -> wk1 -> wk5 -> wk6 -> sx1 -> sx0 changes nothing shared.
  procedure sem_post_internal(psem)
    variables pprev = 0;
  {
   sx0: pprev := semc[psem];                 \* atomic load
        if (pprev < 0) {
          call wake_mpmc(ThreadOf(self), psem, 0);
   sx1:   if (rv[self] > 0) {
   sx1a:    semc[psem] := semc[psem] + 1;    \* atomic_fetch_add
            rv[self] := 1;
            return;
          } else {
            goto sx0;
          };
        };
   sx2: if (semc[psem] = pprev) {            \* compare-exchange pprev -> pprev + 1
          semc[psem] := pprev + 1;
          rv[self] := 0;
          return;
        } else {
          goto sx0;
        }
  }

  \* ---- fiber_semaphore_post(qsem)
  procedure sem_post(qsem)
  {
   sq0: semPosts[qsem] := semPosts[qsem] + 1;
        semPosting[qsem] := semPosting[qsem] + 1;
        call sem_post_internal(qsem);
   sq1: semPosting[qsem] := semPosting[qsem] - 1;
        if (rv[self] = 1) {
          call yield(ThreadOf(self));       \* fiber_yield(): let the waiter run
          return;
        } else {
          return;
        }
  }

  \* ---- fiber_semaphore_getvalue(vsem)
  procedure sem_value(vsem)
  {
   sv0: rv[self] := semc[vsem];
        return;
  }
#! OPS
         } else if (op[1] = "semwait") {
           call sem_wait(op[2]);
         } else if (op[1] = "semtrywait") {
           call sem_trywait(op[2]);
         } else if (op[1] = "sempost") {
           call sem_post(op[2]);
         } else if (op[1] = "semvalue") {
           call sem_value(op[2]);
#! MAINT_MPMC
   m3p: if (mgr[mm].mpmcq # None) {
          \* mpmc_fifo_push (atomic section) ...
          mq[SemOfQ(mgr[mm].mpmcq)] := Append(mq[SemOfQ(mgr[mm].mpmcq)], mgr[mm].mpmcf);
          \* ... then (after leaving the section) memset(&manager->mpmc_to_push, 0, ...)
   m3q:   mgr[mm].mpmcq := None || mgr[mm].mpmcf := None;
        };
#! MGRFIELDS
, "mpmcq"
#! MEMCASES
  ELSE IF o \in Sems THEN
      CASE fld = "counter" -> semc[o]
        [] fld = "q" -> mq[o]
#! MODELED
  \/ o \in Sems /\ fld \in {"counter", "q"}
#! GROUPOF
  ELSE IF o \in Sems THEN (IF fld = "counter" THEN "semc" ELSE IF fld = "q" THEN "mq" ELSE "none")
#! GROUPVAL
    [] g = "semc" -> semc
    [] g = "mq" -> mq
#! FAITHFUL
, "semc", "mq"
#! PINNED
 @@ ("fiber_semaphore_wait:counter:RMW" :> {"sa0"})
 @@ ("fiber_semaphore_trywait:counter:R" :> {"sy0"}) @@ ("fiber_semaphore_trywait:counter:CAS" :> {"sy1"})
 @@ ("fiber_semaphore_post_internal:counter:R" :> {"sx0"}) @@ ("fiber_semaphore_post_internal:counter:RMW" :> {"sx1a"})
 @@ ("fiber_semaphore_post_internal:counter:CAS" :> {"sx2"})
 @@ ("fiber_semaphore_getvalue:counter:R" :> {"sv0"})
#! CALLLABELS
, mpmc_fifo_trypop |-> {"wk1"}
#! FNPROC
,
           fiber_semaphore_wait |-> {"sem_wait"},
           fiber_semaphore_trywait |-> {"sem_trywait"},
           fiber_semaphore_post_internal |-> {"sem_post_internal"},
           fiber_semaphore_getvalue |-> {"sem_value"},
           fiber_manager_wait_in_mpmc_queue |-> {"wait_mpmc"},
           fiber_manager_get_mpmc_node |-> {"wait_mpmc"},
           fiber_manager_wake_from_mpmc_queue |-> {"wake_mpmc"},
           mpmc_fifo_trypop |-> {"wake_mpmc"},
           mpmc_fifo_push |-> {"maintenance"},
           \* position pins for the scheduler's deque calls and the idle poll (core functions the
           \* template leaves unconstrained): without them every idle kernel thread may be anywhere
           \* in its polling loop at each of its (read-only) events and trace validation of
           \* 3-thread runs explodes combinatorially
           wsd_work_stealing_deque_size |-> {"load_balance", "sched_next"},
           wsd_work_stealing_deque_steal |-> {"load_balance"},
           wsd_work_stealing_deque_pop_bottom |-> {"sched_next"},
           fiber_poll_events_internal |-> {"mf"}
#! MONFIELDS
, sposts |-> [s \in Sems |-> 0], ssucc |-> [s \in Sems |-> 0], sinprog |-> [s \in Sems |-> 0]
#! MONCASES
    \* semaphore history: posts are counted when CALLED, successes when they RETURN
    [] e.op = "sempost" /\ e.ph = "call" -> [m EXCEPT !.sposts[e.o] = @ + 1, !.sinprog[e.o] = @ + 1]
    [] e.op = "sempost" /\ e.ph = "ret" -> [m EXCEPT !.sinprog[e.o] = @ - 1]
    [] e.op \in {"semwait", "semtrywait"} /\ e.ph = "call" -> [m EXCEPT !.sinprog[e.o] = @ + 1]
    [] e.op \in {"semwait", "semtrywait"} /\ e.ph = "ret" ->
         IF e.op = "semwait" /\ e.r # 1 THEN MonBad(m, "fiber_semaphore_wait did not return success")
         ELSE IF e.r = 1 THEN
           LET mnew == [m EXCEPT !.ssucc[e.o] = @ + 1, !.sinprog[e.o] = @ - 1] IN
           IF mnew.ssucc[e.o] > SemInit[e.o] + m.sposts[e.o]
           THEN MonBad(mnew, "over-admission: more successful waits than the initial value plus the posts called so far")
           ELSE mnew
         ELSE [m EXCEPT !.sinprog[e.o] = @ - 1]
    [] e.op = "semvalue" /\ e.ph = "ret" ->
         IF m.sinprog[e.o] = 0 /\ e.n # SemInit[e.o] + m.sposts[e.o] - m.ssucc[e.o]
         THEN MonBad(m, "semaphore value at rest differs from initial + posts - successful waits")
         ELSE m
#! POST
\* ---- C06
\* no over-admission, at every instant
SemNoOverAdmission == \A s \in Sems : semSucc[s] <= SemInit[s] + semPosts[s]
\* no lost post: whenever no post is in progress, blocked waiters exist only while no unit is
\* available, and then exactly -counter of them
SemNoLostPost == \A s \in Sems : semPosting[s] = 0 =>
                    (IF semc[s] >= 0 THEN semBlocked[s] = {} ELSE Cardinality(semBlocked[s]) = 0 - semc[s])
\* every queued waiter announced itself; a fiber is queued / slotted at most once
SemQueueSane == \A s \in Sems :
                    /\ \A i \in 1..Len(mq[s]) : mq[s][i] \in semBlocked[s]
                    /\ \A i, j \in 1..Len(mq[s]) : i # j => mq[s][i] # mq[s][j]
SemWakeOnlyWaiting == ~semBadWake
SemTryNeedsUnit == ~semTryBad
\* accounting: at rest (no post in progress, no fiber inside the slow path of wait) the
\* value is initial + posts - successful waits
SemRestValue == \A s \in Sems :
                    (semPosting[s] = 0 /\ semPending[s] = {}) => semc[s] = SemInit[s] + semPosts[s] - semSucc[s]
\* a fiber is blocked (announced, not popped) only inside wait
SemBlockedPending == \A s \in Sems : semBlocked[s] \subseteq semPending[s]
