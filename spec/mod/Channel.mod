#! INCLUDE Signal
#! CONSTANTS
CONSTANTS BChans,     \* fiber_bounded_channel_t: own ring (high, low, buffer), senders yield while full
          UChans,     \* fiber_unbounded_channel_t (MPSC queue) and fiber_unbounded_sp_channel_t (SPSC queue):
                      \* the queue is an abstract FIFO here (its operations are atomic sections in the harness)
          MChans,     \* fiber_multi_channel_t: mutex + ring + one list of blocked senders and receivers
          ChanCap     \* [bounded or multi channel -> capacity]
AllChans == BChans \cup UChans \cup MChans
RingChans == BChans \cup MChans
ChSig(c) == c \o "_s"     \* ready signal of a bounded / unbounded channel (element of Signals)
ChLock(c) == c \o "_m"    \* mutex of a multi channel (element of Mutexes)
BIdx(c, n) == (n % ChanCap[c]) + 1
SlotNo == [s \in {"b" \o ToString(i) : i \in 0..7} |-> CHOOSE i \in 0..7 : "b" \o ToString(i) = s]
SlotNames(c) == {"b" \o ToString(i) : i \in 0..(ChanCap[c] - 1)}
#! VARIABLES
,
    bchigh = [c \in RingChans |-> 0],
    bclow = [c \in RingChans |-> 0],
    bcbuf = [c \in RingChans |-> [i \in 1..ChanCap[c] |-> None]],
    chq = [c \in UChans |-> <<>>],
    mcwaiters = [c \in MChans |-> None],      \* head of the list of blocked fibers (linked through scratch)
    \* ---- ghosts (never influence control)
    chSeq = [f \in Fibers |-> 0],             \* messages this fiber has put into channels so far
    chSent = [c \in AllChans |-> <<>>],       \* [v, f, k] in the order the messages entered the channel
    chRecvd = [c \in AllChans |-> <<>>],      \* the same records in the order they were taken out
    chBad = {}
#! DEFINES
    SentRec(c, v) == IF \E i \in 1..Len(chSent[c]) : chSent[c][i].v = v
                     THEN chSent[c][CHOOSE i \in 1..Len(chSent[c]) : chSent[c][i].v = v]
                     ELSE [v |-> v, f |-> "nobody", k |-> 0]
#! PROCEDURES
  \* ---- fiber_bounded_channel_send(bsc, bsv)
  procedure bc_send(bsc, bsv)
    variables bsl = 0; bsh = 0;
  {
   bs0: bsl := bclow[bsc];                      \* low first: the buffer appears at least as full as it is
   bs1: bsh := bchigh[bsc];
   bs2: if (bcbuf[bsc][BIdx(bsc, bsh)] # None \/ bsh - bsl >= ChanCap[bsc]) {
          goto bs6;                             \* slot not yet emptied, or full
        };
   bs3: if (bchigh[bsc] = bsh) {                \* CAS(&high, high, high + 1): claim the slot
          bchigh[bsc] := bsh + 1;
          chSeq[self] := chSeq[self] + 1;
          chSent[bsc] := Append(chSent[bsc], [v |-> bsv, f |-> self, k |-> chSeq[self] + 1]);
        } else {
          goto bs6;
        };
   bs4: if (bcbuf[bsc][BIdx(bsc, bsh)] # None) { chBad := chBad \cup {"bounded channel: a slot was overwritten before its message was received"} };
        bcbuf[bsc][BIdx(bsc, bsh)] := bsv;
   bs5: call sig_raise(ChSig(bsc));
        return;
   bs6: call yield(ThreadOf(self));             \* fiber_yield()
   bs7: goto bs0;
  }

  \* ---- fiber_bounded_channel_receive(brc): rv[self] = message
  procedure bc_recv(brc)
    variables brh = 0; brl = 0; brv = None;
  {
   bx0: brh := bchigh[brc];                     \* high first: the buffer appears at most as full as it is
   bx1: brl := bclow[brc];
   bx2: brv := bcbuf[brc][BIdx(brc, brl)];
        if (brv # None /\ brh > brl) {
   bx3:   bcbuf[brc][BIdx(brc, brl)] := None;
   bx4:   bclow[brc] := brl + 1;
          chRecvd[brc] := Append(chRecvd[brc], SentRec(brc, brv));
          rv[self] := brv;
          return;
        } else {
          call sig_wait(ChSig(brc));
   bx5:   goto bx0;
        }
  }

  \* ---- fiber_unbounded_channel_send / fiber_unbounded_sp_channel_send(usc, usv)
  procedure uc_send(usc, usv)
  {
   us0: chq[usc] := Append(chq[usc], usv);      \* mpsc_fifo_push / spsc_fifo_push (atomic section)
        chSeq[self] := chSeq[self] + 1;
        chSent[usc] := Append(chSent[usc], [v |-> usv, f |-> self, k |-> chSeq[self] + 1]);
   us1: call sig_raise(ChSig(usc));
        return;
  }

  \* ---- fiber_unbounded_channel_receive / fiber_unbounded_sp_channel_receive(urc): rv[self] = message
  procedure uc_recv(urc)
  {
   ur0: if (chq[urc] # <<>>) {                  \* mpsc_fifo_trypop / spsc_fifo_trypop (atomic section)
          rv[self] := Head(chq[urc]);
          chRecvd[urc] := Append(chRecvd[urc], SentRec(urc, Head(chq[urc])));
          chq[urc] := Tail(chq[urc]);
        } else {
          call sig_wait(ChSig(urc));
   ur1:   goto ur0;
        };
   ur2: return;
  }

  \* ---- polling receive: fiber_bounded_channel_try_receive(btc) until it succeeds, fiber_yield() between attempts
  procedure bc_tryrecv(btc)
    variables bth = 0; btl = 0; btv = None;
  {
   bt0: bth := bchigh[btc];                     \* high first, as in the blocking receive
   bt1: btl := bclow[btc];
   bt2: btv := bcbuf[btc][BIdx(btc, btl)];
        if (btv # None /\ bth > btl) {
   bt3:   bcbuf[btc][BIdx(btc, btl)] := None;
   bt4:   bclow[btc] := btl + 1;
          chRecvd[btc] := Append(chRecvd[btc], SentRec(btc, btv));
          rv[self] := btv;
          return;
        } else {
          call yield(ThreadOf(self));           \* try_receive returned 0: the driver yields and tries again
   bt5:   goto bt0;
        }
  }

  \* ---- polling receive on an unbounded / single-producer channel: try_receive = one trypop of the queue
  procedure uc_tryrecv(utc)
  {
   ut0: if (chq[utc] # <<>>) {                  \* mpsc_fifo_trypop / spsc_fifo_trypop (atomic section)
          rv[self] := Head(chq[utc]);
          chRecvd[utc] := Append(chRecvd[utc], SentRec(utc, Head(chq[utc])));
          chq[utc] := Tail(chq[utc]);
        } else {
          call yield(ThreadOf(self));
   ut1:   goto ut0;
        };
   ut2: return;
  }

  \* ---- fiber_multi_channel_internal_wait(mzc): called with the channel's mutex held
  procedure mc_wait(mzc)
    variables mzm = 0;
  {
   mz0: mzm := ThreadOf(self);                  \* fiber_manager_get()
        scratch[self] := mcwaiters[mzc];        \* this_fiber->scratch = channel->waiters
        mcwaiters[mzc] := self;                 \* channel->waiters = this_fiber
   mz1: fstate[self] := WAITING;
        mgr[mzm].mtx := ChLock(mzc);            \* the successor unlocks the mutex after the switch
        holder[ChLock(mzc)] := holder[ChLock(mzc)] \ {self};
        call yield(mzm);
   mz2: return;
  }

  \* ---- fiber_multi_channel_internal_wake(mkc): called with the channel's mutex held
  procedure mc_wake(mkc)
    variables mkx = None;
  {
   mk0: if (mcwaiters[mkc] = None) { return; };
   mk1: mkx := mcwaiters[mkc];
        mcwaiters[mkc] := scratch[mcwaiters[mkc]];     \* channel->waiters = to_wake->scratch
   mk2: scratch[mkx] := None;
   mk3: fstate[mkx] := READY;
        if (~saved[mkx]) { chBad := chBad \cup {"multi channel: a blocked fiber was made READY before its context was saved"} };
   mk4: Push(ThreadOf(self), mkx);
        pendingWake[mkx] := pendingWake[mkx] + 1;
        return;
  }

  \* ---- fiber_multi_channel_send(mxc, mxv)
  procedure mc_send(mxc, mxv)
  {
   mx0: call lock(ChLock(mxc));
   mx1: if (bchigh[mxc] - bclow[mxc] >= ChanCap[mxc]) {
          call mc_wait(mxc);
   mx2:   goto mx0;
        } else {
          if (bcbuf[mxc][BIdx(mxc, bchigh[mxc])] # None) { chBad := chBad \cup {"multi channel: a slot was overwritten before its message was received"} };
          bcbuf[mxc][BIdx(mxc, bchigh[mxc])] := mxv;
          bchigh[mxc] := bchigh[mxc] + 1;
          chSeq[self] := chSeq[self] + 1;
          chSent[mxc] := Append(chSent[mxc], [v |-> mxv, f |-> self, k |-> chSeq[self] + 1]);
        };
   mx3: call mc_wake(mxc);
   mx4: call unlock(ChLock(mxc));
        return;
  }

  \* ---- fiber_multi_channel_receive(myc): rv[self] = message
  procedure mc_recv(myc)
    variables myv = None;
  {
   my0: call lock(ChLock(myc));
   my1: if (bchigh[myc] <= bclow[myc]) {
          call mc_wait(myc);
   my2:   goto my0;
        } else {
          myv := bcbuf[myc][BIdx(myc, bclow[myc])];
          chRecvd[myc] := Append(chRecvd[myc], SentRec(myc, bcbuf[myc][BIdx(myc, bclow[myc])]));
          bcbuf[myc][BIdx(myc, bclow[myc])] := None;
          bclow[myc] := bclow[myc] + 1;
        };
   my3: call mc_wake(myc);
   my4: call unlock(ChLock(myc));
   my5: rv[self] := myv;
        return;
  }
#! OPS
         } else if (op[1] = "send") {
           if (op[2] \in BChans) {
             call bc_send(op[2], op[3]);
           } else if (op[2] \in UChans) {
             call uc_send(op[2], op[3]);
           } else {
             call mc_send(op[2], op[3]);
           };
         } else if (op[1] = "tryrecv") {
           if (op[2] \in BChans) {
             call bc_tryrecv(op[2]);
           } else {
             call uc_tryrecv(op[2]);
           };
         } else if (op[1] = "recv") {
           if (op[2] \in BChans) {
             call bc_recv(op[2]);
           } else if (op[2] \in UChans) {
             call uc_recv(op[2]);
           } else {
             call mc_recv(op[2]);
           };
#! MEMCASES
  ELSE IF o \in RingChans THEN
      CASE fld = "high" -> bchigh[o]
        [] fld = "low" -> bclow[o]
        [] fld = "waiters" -> mcwaiters[o]
        [] OTHER -> bcbuf[o][SlotNo[fld] + 1]
  ELSE IF o \in UChans THEN chq[o]
#! MODELED
  \/ o \in BChans /\ fld \in {"high", "low"} \cup SlotNames(o)
  \/ o \in MChans /\ fld \in {"high", "low", "waiters"} \cup SlotNames(o)
  \/ o \in UChans /\ fld = "q"
#! GROUPOF
  ELSE IF o \in RingChans THEN (IF fld = "high" THEN "bchigh" ELSE IF fld = "low" THEN "bclow"
                                ELSE IF fld = "waiters" THEN "mcwaiters" ELSE "bcbuf")
  ELSE IF o \in UChans THEN "chq"
#! GROUPVAL
    [] g = "bchigh" -> bchigh
    [] g = "bclow" -> bclow
    [] g = "bcbuf" -> bcbuf
    [] g = "mcwaiters" -> mcwaiters
    [] g = "chq" -> chq
#! FAITHFUL
, "bchigh", "bclow", "bcbuf", "mcwaiters", "chq"
#! PINNED
 @@ ("fiber_bounded_channel_send:low:R" :> {"bs0"}) @@ ("fiber_bounded_channel_send:high:R" :> {"bs1"}) @@ ("fiber_bounded_channel_send:high:CAS" :> {"bs3"})
 @@ ("fiber_bounded_channel_try_receive:high:R" :> {"bt0"}) @@ ("fiber_bounded_channel_try_receive:low:R" :> {"bt1"}) @@ ("fiber_bounded_channel_try_receive:low:W" :> {"bt4"})
 @@ ("fiber_bounded_channel_receive:high:R" :> {"bx0"}) @@ ("fiber_bounded_channel_receive:low:R" :> {"bx1"}) @@ ("fiber_bounded_channel_receive:low:W" :> {"bx4"})
#! FNPROC
,
           fiber_bounded_channel_send |-> {"bc_send"},
           fiber_bounded_channel_receive |-> {"bc_recv"},
           fiber_bounded_channel_try_receive |-> {"bc_tryrecv"},
           fiber_unbounded_channel_try_receive |-> {"uc_tryrecv"},
           fiber_unbounded_sp_channel_try_receive |-> {"uc_tryrecv"},
           fiber_unbounded_channel_send |-> {"uc_send"},
           fiber_unbounded_channel_receive |-> {"uc_recv"},
           fiber_unbounded_sp_channel_send |-> {"uc_send"},
           fiber_unbounded_sp_channel_receive |-> {"uc_recv"},
           chq_mpsc_fifo_push |-> {"uc_send"},
           chq_spsc_fifo_push |-> {"uc_send"},
           chq_mpsc_fifo_trypop |-> {"uc_recv", "uc_tryrecv", "sig_wait", "yield"},
           chq_spsc_fifo_trypop |-> {"uc_recv", "uc_tryrecv", "sig_wait", "yield"},
           fiber_multi_channel_send |-> {"mc_send"},
           fiber_multi_channel_receive |-> {"mc_recv"},
           fiber_multi_channel_internal_wait |-> {"mc_wait"},
           fiber_multi_channel_internal_wake |-> {"mc_wake"}
#! MONFIELDS
, chsent |-> {}, chrecv |-> {}, chorder |-> {}
#! MONCASES
    \* channels, API level: exactly-once, nothing received that was not sent, and one receiver
    \* sees the messages of one sender in the order they were sent
    [] e.op = "send" /\ e.ph = "call" ->
         [m EXCEPT !.chsent = @ \cup {<<e.o, e.v, e.f, Cardinality({x \in m.chsent : x[1] = e.o /\ x[3] = e.f}) + 1>>}]
    [] e.op \in {"recv", "tryrecv"} /\ e.ph = "ret" ->
         LET cand == {x \in m.chsent : x[1] = e.o /\ x[2] = e.v} IN
         IF cand = {} THEN MonBad(m, "a message was received that had not been sent")
         ELSE IF <<e.o, e.v>> \in m.chrecv THEN MonBad(m, "a message was received twice")
         ELSE LET csnd == CHOOSE x \in cand : TRUE IN
              IF \E y \in m.chorder : y[1] = e.f /\ y[2] = csnd[3] /\ y[3] = e.o /\ y[4] > csnd[4]
              THEN MonBad(m, "messages of one sender were received out of order")
              ELSE [m EXCEPT !.chrecv = @ \cup {<<e.o, e.v>>}, !.chorder = @ \cup {<<e.f, csnd[3], e.o, csnd[4]>>}]
#! POST
\* ---- channels (C11)
ChanOK == chBad = {}
\* a bounded / multi channel never holds more than its capacity
ChanOccupancy == \A c \in RingChans : bclow[c] <= bchigh[c] /\ bchigh[c] - bclow[c] <= ChanCap[c]
\* messages leave every channel in the order they entered it: exactly once, nothing invented,
\* messages of one sender in the order sent
ChanFifo == \A c \in AllChans : Len(chRecvd[c]) <= Len(chSent[c]) /\ chRecvd[c] = SubSeq(chSent[c], 1, Len(chRecvd[c]))
ChanSenderOrder == \A c \in AllChans : \A i, j \in 1..Len(chRecvd[c]) :
                      (i < j /\ chRecvd[c][i].f = chRecvd[c][j].f) => chRecvd[c][i].k < chRecvd[c][j].k
ChanExactlyOnce == \A c \in AllChans : \A i, j \in 1..Len(chRecvd[c]) : i # j => chRecvd[c][i].v # chRecvd[c][j].v
\* balanced scripts: when the scenario has finished every message that was sent has been received
ChanAllDelivered == finished => \A c \in AllChans : Len(chRecvd[c]) = Len(chSent[c])
