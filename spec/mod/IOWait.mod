#! CONSTANTS
CONSTANTS Fds,          \* descriptor names in play (socketpair ends p1a/p1b, pipe ends q1r/q1w, listeners l1)
          PeerOf,       \* [fd -> the other end, "none" for a listener]
          KCap,         \* [fd -> capacity (units) of the kernel buffer holding what can be READ at fd]
          Listeners,    \* subset of Fds
          AcceptLoops   \* TRUE: accept() re-waits after a failed retry (as read does); FALSE: retries once
BitIn == 1
BitOut == 4
HasBit(x, b) == (x \div b) % 2 = 1
OrBit(x, b) == IF HasBit(x, b) THEN x ELSE x + b
ClearBits(x, r) == x - (IF HasBit(x, BitIn) /\ HasBit(r, BitIn) THEN BitIn ELSE 0)
                     - (IF HasBit(x, BitOut) /\ HasBit(r, BitOut) THEN BitOut ELSE 0)
LockName(fd) == "lk_" \o fd
FlagName(fd) == "fl_" \o fd
LockNames == {LockName(fd) : fd \in Fds}
FlagNames == {FlagName(fd) : fd \in Fds}
LkFd == [o \in LockNames |-> CHOOSE fd \in Fds : LockName(fd) = o]
FlFd == [o \in FlagNames |-> CHOOSE fd \in Fds : FlagName(fd) = o]
ClosedMark == "#-1"                  \* (void*)-1: the result fiber_fd_closed hands to the waiters
IdChar == <<"0", "1", "2", "3", "4", "5", "6", "7">>
IdStr(s) == LET F[i \in 0..Len(s)] == IF i = 0 THEN "" ELSE F[i - 1] \o IdChar[s[i] + 1] IN F[Len(s)]
IdsFrom(from, k) == [i \in 1..k |-> (from + i - 1) % 8]
IoMin(a, b) == IF a < b THEN a ELSE b
IoPerms(S) == LET P[T \in SUBSET S] == IF T = {} THEN {<<>>}
                    ELSE UNION {{<<x>> \o q : q \in P[T \ {x}]} : x \in T} IN P[S]
NoRes == [r |-> 0, e |-> "", v |-> ""]
#! VARIABLES
,
    \* ---- fd_wait_info entries (tracked memory)
    wev = [fd \in Fds |-> 0],                 \* events (EPOLLIN = 1, EPOLLOUT = 4)
    wadded = [fd \in Fds |-> 0],
    wwait = [fd \in Fds |-> None],            \* head of the LIFO waiter list (threaded through scratch)
    wlk = [fd \in Fds |-> [ticket |-> 0, users |-> 0]],
    shfl = [fd \in Fds |-> 3],                \* fd_info[fd].flags_: BLOCKING|WAITABLE, 0 after close
    \* ---- abstract kernel (changed only by the labels that stand for a system call; they flip ksys)
    kbuf = [fd \in Fds |-> <<>>],             \* units that can be read at fd, oldest first
    kwcnt = [fd \in Fds |-> 0],               \* units accepted from writers of fd so far (mod 8: next id)
    kclosed = [fd \in Fds |-> FALSE],
    kint = [fd \in Fds |-> [armed |-> FALSE, ev |-> 0]],   \* one-shot epoll interest
    kpend = [fd \in Fds |-> 0],               \* listener: pending connections
    kfull = [fd \in Fds |-> FALSE],           \* the harness has stuffed the buffer read at fd (its writers see it full)
    ksys = 0,
    iopl = [f \in Fibers |-> <<>>],           \* events returned by epoll_wait, still to be handled
    iores = [f \in Fibers |-> NoRes],         \* result of the last shim call of the fiber
    \* ---- ghosts
    dlv = [fd \in Fds |-> <<>>],              \* units delivered to readers of fd, in system-call order
    ioEagain = FALSE,                         \* a blocking-mode call returned EAGAIN
    ioCalls = [f \in Fibers |-> 0]
#! DEFINES
    ReadyIn(fd) == IF fd \in Listeners THEN kpend[fd] > 0
                   ELSE Len(kbuf[fd]) > 0 \/ (PeerOf[fd] # "none" /\ kclosed[PeerOf[fd]])
    ReadyOut(fd) == PeerOf[fd] # "none" /\ ((~kfull[PeerOf[fd]] /\ Len(kbuf[PeerOf[fd]]) < KCap[PeerOf[fd]]) \/ kclosed[PeerOf[fd]])
    WaitersOf(fd) == LET W[f \in Fibers, n \in 0..Cardinality(Fibers)] ==
                            {f} \cup (IF n > 0 /\ scratch[f] \in Fibers THEN W[scratch[f], n - 1] ELSE {})
                     IN IF wwait[fd] \in Fibers THEN W[wwait[fd], Cardinality(Fibers)] ELSE {}
    Reported(fd) == (IF HasBit(kint[fd].ev, BitIn) /\ ReadyIn(fd) THEN BitIn ELSE 0)
                    + (IF HasBit(kint[fd].ev, BitOut) /\ ReadyOut(fd) THEN BitOut ELSE 0)
    Hup(fd) == PeerOf[fd] # "none" /\ kclosed[PeerOf[fd]]
    PollReady(fd) == kint[fd].armed /\ ~kclosed[fd] /\ (Reported(fd) # 0 \/ Hup(fd))
    PollSet == {[fd |-> fd, rep |-> Reported(fd)] : fd \in {x \in Fds : PollReady(x)}}
#! PROCEDURES
  \* ---- fiber_spinlock_lock(&wait_info[fd].spinlock)
  procedure io_lock(iolfd)
    variables iomyt = 0;
  {
   iol0: iomyt := wlk[iolfd].users;
         wlk[iolfd].users := wlk[iolfd].users + 1;
   iol1: await wlk[iolfd].ticket = iomyt;
         return;
  }

  \* ---- fiber_wait_for_event(fd, events): rv[self] = 1 FIBER_SUCCESS, 0 FIBER_ERROR (closed while waiting)
  procedure wait_event(iowfd, iowbit)
  {
   iow0: call io_lock(iowfd);
   iow1: wev[iowfd] := OrBit(wev[iowfd], iowbit);
   iow2: \* epoll_ctl(ADD or MOD, EPOLLONESHOT | info->events)
         kint[iowfd] := [armed |-> TRUE, ev |-> wev[iowfd]];
         ksys := 1 - ksys;
   iow3: if (wadded[iowfd] = 0) { wadded[iowfd] := 1 };
   iow4: scratch[self] := wwait[iowfd];
   iow5: wwait[iowfd] := self;
   iow6: fstate[self] := WAITING;
         mgr[ThreadOf(self)].spin := LockName(iowfd);
         call yield(ThreadOf(self));
   iow7: rv[self] := IF scratch[self] = None THEN 1 ELSE 0;
         return;
  }

  \* ---- fiber_event_wake_waiters(manager, info, result)
  procedure wake_waiters(iokfd, iokres, iokm)
    variables iowk = None;
  {
   iok0: while (wwait[iokfd] # None) {
           iowk := wwait[iokfd];
   iok1:   wwait[iokfd] := scratch[iowk];
   iok2:   scratch[iowk] := None;
   iok3:   fstate[iowk] := READY;
   iok4:   scratch[iowk] := iokres;
   iok5:   Push(iokm, iowk);
           pendingWake[iowk] := pendingWake[iowk] + 1;
         };
   iok6: return;
  }

  \* ---- read(fd, n units) of fiber_io.c: wait first, then try
  procedure io_read(iorfd, iorn)
  {
   ior0: ioCalls[self] := ioCalls[self] + 1;
   ior0a: if (shfl[iorfd] # 0) {
           call wait_event(iorfd, BitIn);
   ior1:   if (rv[self] = 0) {
             iores[self] := [r |-> -1, e |-> "closedwait", v |-> ""];
             return;
           };
         };
   ior2: \* the real read(2)
         ksys := 1 - ksys;
         if (kclosed[iorfd]) {
           iores[self] := [r |-> -1, e |-> "EBADF", v |-> ""];
           return;
         } else if (Len(kbuf[iorfd]) > 0) {
           iores[self] := [r |-> IoMin(iorn, Len(kbuf[iorfd])), e |-> "", v |-> IdStr(SubSeq(kbuf[iorfd], 1, IoMin(iorn, Len(kbuf[iorfd]))))];
           dlv[iorfd] := dlv[iorfd] \o SubSeq(kbuf[iorfd], 1, IoMin(iorn, Len(kbuf[iorfd])));
           kbuf[iorfd] := SubSeq(kbuf[iorfd], IoMin(iorn, Len(kbuf[iorfd])) + 1, Len(kbuf[iorfd]));
           return;
         } else if (kclosed[PeerOf[iorfd]]) {
           iores[self] := [r |-> 0, e |-> "", v |-> ""];
           return;
         } else {
           iores[self] := [r |-> -1, e |-> "EAGAIN", v |-> ""];
         };
   ior3: if (shfl[iorfd] # 0) {
           goto ior0a;
         } else {
           ioEagain := TRUE;
           return;
         }
  }

  \* ---- write(fd, n units) of fiber_io.c: try first, then wait
  procedure io_write(ioxfd, ioxn)
  {
   iox0: \* the real write(2)
         ksys := 1 - ksys;
         if (kclosed[ioxfd]) {
           iores[self] := [r |-> -1, e |-> "EBADF", v |-> ""];
           return;
         } else if (kclosed[PeerOf[ioxfd]]) {
           iores[self] := [r |-> -1, e |-> "EPIPE", v |-> ""];
           return;
         } else if (~kfull[PeerOf[ioxfd]] /\ Len(kbuf[PeerOf[ioxfd]]) < KCap[PeerOf[ioxfd]]) {
           iores[self] := [r |-> IoMin(ioxn, KCap[PeerOf[ioxfd]] - Len(kbuf[PeerOf[ioxfd]])), e |-> "",
                           v |-> IdStr(IdsFrom(kwcnt[ioxfd], IoMin(ioxn, KCap[PeerOf[ioxfd]] - Len(kbuf[PeerOf[ioxfd]]))))];
           \* (kbuf last: PlusCal reads see the values assigned earlier in the label)
           kbuf[PeerOf[ioxfd]] := kbuf[PeerOf[ioxfd]] \o IdsFrom(kwcnt[ioxfd], IoMin(ioxn, KCap[PeerOf[ioxfd]] - Len(kbuf[PeerOf[ioxfd]])))
             || kwcnt[ioxfd] := (kwcnt[ioxfd] + IoMin(ioxn, KCap[PeerOf[ioxfd]] - Len(kbuf[PeerOf[ioxfd]]))) % 8;
           return;
         } else {
           iores[self] := [r |-> -1, e |-> "EAGAIN", v |-> ""];
         };
   iox1: if (shfl[ioxfd] # 0) {
           call wait_event(ioxfd, BitOut);
         } else {
           ioEagain := TRUE;
           return;
         };
   iox2: if (rv[self] = 0) {
           iores[self] := [r |-> -1, e |-> "closedwait", v |-> ""];
           return;
         } else {
           goto iox0;
         }
  }

  \* ---- accept(listener) of fiber_io.c: try, wait, retry (once unless AcceptLoops)
  procedure io_accept(ioafd)
  {
   ioa0: ksys := 1 - ksys;
         if (kclosed[ioafd]) {
           iores[self] := [r |-> -1, e |-> "EBADF", v |-> ""];
           return;
         } else if (kpend[ioafd] > 0) {
           kpend[ioafd] := kpend[ioafd] - 1;
           iores[self] := [r |-> 1, e |-> "", v |-> ""];
           return;
         } else {
           iores[self] := [r |-> -1, e |-> "EAGAIN", v |-> ""];
         };
   ioa1: if (shfl[ioafd] # 0) {
           call wait_event(ioafd, BitIn);
         } else {
           ioEagain := TRUE;
           return;
         };
   ioa2: if (rv[self] = 0) {
           iores[self] := [r |-> -1, e |-> "closedwait", v |-> ""];
           return;
         };
   ioa3: ksys := 1 - ksys;
         if (kclosed[ioafd]) {
           iores[self] := [r |-> -1, e |-> "EBADF", v |-> ""];
           return;
         } else if (kpend[ioafd] > 0) {
           kpend[ioafd] := kpend[ioafd] - 1;
           iores[self] := [r |-> 1, e |-> "", v |-> ""];
           return;
         } else {
           iores[self] := [r |-> -1, e |-> "EAGAIN", v |-> ""];
         };
   ioa4: if (AcceptLoops) {
           goto ioa1;
         } else {
           ioEagain := TRUE;     \* blocking-mode accept fails with EAGAIN
           return;
         }
  }

  \* ---- close(fd) of fiber_io.c: fiber_fd_closed(fd); flags = 0; real close
  procedure io_close(iocfd)
  {
   ioc0: call io_lock(iocfd);
   ioc1: if (wev[iocfd] # 0 \/ wadded[iocfd] # 0) {
           kint[iocfd] := [armed |-> FALSE, ev |-> 0];      \* epoll_ctl(DEL)
           ksys := 1 - ksys;
   ioc2:   wev[iocfd] := 0;
   ioc3:   wadded[iocfd] := 0;
         };
   ioc4: call wake_waiters(iocfd, ClosedMark, ThreadOf(self));
   ioc5: wlk[iocfd].ticket := wlk[iocfd].ticket + 1;
   ioc5b: shfl[iocfd] := 0;
   ioc6: kclosed[iocfd] := TRUE;                             \* the real close(2)
         kint[iocfd] := [armed |-> FALSE, ev |-> 0];
         ksys := 1 - ksys;
         iores[self] := [r |-> 1, e |-> "", v |-> ""];
         return;
  }

  \* ---- a client of the harness connects to a listener (raw system calls of the driver)
  procedure io_conn(iocnfd)
  {
   iocn0: kpend[iocnfd] := kpend[iocnfd] + 1;
          ksys := 1 - ksys;
          return;
  }

  \* ---- harness: stuff the send direction of fd with filler (raw writes until EAGAIN) / take the filler out again
  procedure io_fill(ioffd)
  {
   iofl0: kfull[PeerOf[ioffd]] := TRUE;
          ksys := 1 - ksys;
          return;
  }
  procedure io_drain(iodfd)
  {
   iodr0: kfull[iodfd] := FALSE;
          ksys := 1 - ksys;
          return;
  }
  \* ---- test helper: yield until at least iown fibers are on the waiter list of the descriptor
  procedure io_awaitn(iowtfd, iown)
  {
   ioaw0: if (Cardinality(WaitersOf(iowtfd)) < iown) {
            call yield(ThreadOf(self));
   ioaw1:   goto ioaw0;
          };
   ioaw2: return;
  }

  \* ---- the loops a program puts around short transfers
  procedure io_rdall(iorafd, ioran)
    variables iorleft = 0;
  {
   iora0: iorleft := ioran;
   iora1: while (iorleft > 0) {
            call io_read(iorafd, iorleft);
   iora2:   iorleft := IF iores[self].r <= 0 THEN 0 ELSE iorleft - iores[self].r;
          };
   iora3: return;
  }
  procedure io_wrall(iowafd, iowan)
    variables iowleft = 0;
  {
   iowa0: iowleft := iowan;
   iowa1: while (iowleft > 0) {
            call io_write(iowafd, iowleft);
   iowa2:   iowleft := IF iores[self].r <= 0 THEN 0 ELSE iowleft - iores[self].r;
          };
   iowa3: return;
  }
#! OPS
         } else if (op[1] = "rd") {
           call io_read(op[2], op[3]);
         } else if (op[1] = "wr") {
           call io_write(op[2], op[3]);
         } else if (op[1] = "rdall") {
           call io_rdall(op[2], op[3]);
         } else if (op[1] = "wrall") {
           call io_wrall(op[2], op[3]);
         } else if (op[1] = "close") {
           call io_close(op[2]);
         } else if (op[1] = "accept") {
           call io_accept(op[2]);
         } else if (op[1] = "conn") {
           call io_conn(op[2]);
         } else if (op[1] = "fill") {
           call io_fill(op[2]);
         } else if (op[1] = "drain") {
           call io_drain(op[2]);
         } else if (op[1] = "awaitn") {
           call io_awaitn(op[2], op[3]);
#! MAINT_SPIN
   m5io: if (mx \in LockNames) {
           wlk[LkFd[mx]].ticket := wlk[LkFd[mx]].ticket + 1;
         };
#! IDLE
   ioi0: \* epoll_wait(timeout 0): every armed descriptor that is ready is reported once (one-shot) in some order
         with (iosq \in IoPerms(PollSet)) {
           iopl[self] := iosq;
           if (iosq # <<>>) {
             kint := [fd \in Fds |-> IF PollReady(fd) THEN [armed |-> FALSE, ev |-> kint[fd].ev] ELSE kint[fd]];
             ksys := 1 - ksys;
           };
         };
   ioi1: while (iopl[self] # <<>>) {
           call io_lock(iopl[self][1].fd);
   ioi2:   wev[iopl[self][1].fd] := ClearBits(wev[iopl[self][1].fd], iopl[self][1].rep);
   ioi3:   if (wev[iopl[self][1].fd] # 0) {
             \* epoll_ctl(MOD): re-arm for the directions still waited for
             kint[iopl[self][1].fd] := [armed |-> TRUE, ev |-> wev[iopl[self][1].fd]];
             ksys := 1 - ksys;
           };
   ioi4:   call wake_waiters(iopl[self][1].fd, None, tm);
   ioi5:   wlk[iopl[self][1].fd].ticket := wlk[iopl[self][1].fd].ticket + 1;
           iopl[self] := Tail(iopl[self]);
         };
   ioi9: skip;
#! MEMCASES
  ELSE IF o \in Fds THEN
      CASE fld = "events" -> wev[o]
        [] fld = "added" -> wadded[o]
        [] fld = "waiters" -> wwait[o]
  ELSE IF o \in LockNames THEN (IF fld = "ticket" THEN wlk[LkFd[o]].ticket ELSE wlk[LkFd[o]].users)
  ELSE IF o \in FlagNames THEN shfl[FlFd[o]]
#! MODELED
  \/ o \in Fds /\ fld \in {"events", "added", "waiters"}
  \/ o \in LockNames \/ o \in FlagNames
#! FIBERFIELDS
, "scratch"
#! GROUPOF
  ELSE IF o \in Fds THEN (IF fld = "events" THEN "wev" ELSE IF fld = "added" THEN "wadded" ELSE IF fld = "waiters" THEN "wwait" ELSE "none")
  ELSE IF o \in LockNames THEN "wlk"
  ELSE IF o \in FlagNames THEN "shfl"
#! GROUPVAL
    [] g = "wev" -> wev
    [] g = "wadded" -> wadded
    [] g = "wwait" -> wwait
    [] g = "wlk" -> wlk
    [] g = "shfl" -> shfl
    [] g = "ksys" -> ksys
#! FAITHFUL
, "wev", "wadded", "wwait", "wlk", "shfl", "ksys"
#! FNPROC
,
           fiber_wait_for_event |-> {"wait_event"},
           fiber_event_wake_waiters |-> {"wake_waiters"},
           fiber_fd_closed |-> {"io_close"},
           fiber_poll_events_internal |-> {"mf"},
           vrt_io_epoll_wait |-> {"mf"},
           fiber_spinlock_lock |-> {"io_lock"},
           fiber_spinlock_unlock |-> {"maintenance", "io_close", "mf"},
           sys_read |-> {"io_read"}, sys_write |-> {"io_write"}, sys_accept |-> {"io_accept"},
           sys_close |-> {"io_close"}, sys_conn |-> {"io_conn"}, sys_poll |-> {"mf"},
           sys_ctl |-> {"wait_event", "io_close", "mf"}, sys_fill |-> {"io_fill"}, sys_drain |-> {"io_drain"}
#! MONFIELDS
, lastsys |-> [f \in Fibers |-> [r |-> 0, e |-> "none", v |-> ""]], rnext |-> [fd \in Fds |-> 0], wnext |-> [fd \in Fds |-> 0]
#! MONCASES
    [] e.op \in {"rd", "wr", "accept", "close"} /\ e.ph = "call" -> [m EXCEPT !.lastsys[e.f] = [r |-> 0, e |-> "none", v |-> ""]]
    \* the call returns what the last system call it made produced; a call that was woken because the
    \* descriptor was closed fails; a blocking-mode call never fails with EAGAIN
    [] e.op \in {"rd", "wr", "accept", "close"} /\ e.ph = "ret" ->
         LET ls == m.lastsys[e.f] IN
         IF e.r = -1 /\ e.v = "EAGAIN" THEN MonBad(m, "a call on a descriptor in blocking mode failed with EAGAIN")
         ELSE IF ls.e \in {"none", "EAGAIN"} THEN
           (IF e.r # -1 THEN MonBad(m, "a call that made no successful system call reported success") ELSE m)
         ELSE IF e.r # ls.r THEN MonBad(m, "the call returned a different count than its system call transferred")
         ELSE IF e.op = "rd" /\ e.r > 0 /\ e.v # ls.v THEN MonBad(m, "the call delivered other data than its system call read")
         ELSE m
#! TRACEACTIONS
\* a system call made by the shim or the event engine, with its real result: the fiber on that kernel
\* thread must be at the label that stands for this call, and the abstract kernel must produce the same result
SysLabels == [read |-> {"ior2"}, write |-> {"iox0"}, accept |-> {"ioa0", "ioa3"}, close |-> {"ioc6"},
              ctl |-> {"iow2", "ioi3", "ioc1"}, poll |-> {"ioi0"}, conn |-> {"iocn0"},
              fill |-> {"iofl0"}, drain |-> {"iodr0"}]
SysOK(f, e) ==
  CASE e.op \in {"read", "write"} -> iores'[f].r = e.r /\ iores'[f].e = e.e /\ (e.r > 0 => iores'[f].v = e.v)
    [] e.op = "accept" -> iores'[f].r = e.r /\ iores'[f].e = e.e
    [] e.op = "close" -> e.r = 1 /\ kclosed'[e.o]
    [] e.op = "ctl" -> kint'[e.o] = [armed |-> (e.v # "del"), ev |-> (IF e.v = "del" THEN 0 ELSE e.n)]
    [] e.op = "poll" -> iopl'[f] = [i \in 1..Len(e.fds) |-> [fd |-> e.fds[i], rep |-> e.evs[i]]]
    [] e.op = "conn" -> e.r = 1 /\ kpend'[e.o] = kpend[e.o] + 1
    [] e.op = "fill" -> kfull'[PeerOf[e.o]]
    [] e.op = "drain" -> ~kfull'[e.o]
MonSys(m, e, f) ==
  IF e.op \in {"read", "write", "accept", "close"} THEN
    LET monx == [m EXCEPT !.lastsys[f] = [r |-> e.r, e |-> e.e, v |-> e.v]] IN
    IF e.op = "read" /\ e.r > 0 THEN
      (IF e.v # IdStr(IdsFrom(m.rnext[e.o], e.r)) THEN MonBad(monx, "bytes read from a descriptor are not the next bytes of its stream (lost, duplicated or out of order)")
       ELSE [monx EXCEPT !.rnext[e.o] = (@ + e.r) % 8])
    ELSE IF e.op = "write" /\ e.r > 0 THEN [monx EXCEPT !.wnext[e.o] = (@ + e.r) % 8]
    ELSE monx
  ELSE m
TSys == /\ tl <= Len(Traces[tk])
        /\ Ev.k = "sys"
        /\ LET f == cur[TIdx(Ev.t)] IN
             /\ pc[f] \in SysLabels[Ev.op]
             /\ Step(f)
             /\ ksys' # ksys
             /\ SysOK(f, Ev)
             /\ \A g \in FaithfulGroups \ {"ksys"} : GroupVal(g)' = GroupVal(g)
             /\ mon' = MonSys(mon, Ev, f)
        /\ tl' = tl + 1
        /\ tn' = 0                   \* (tools/assemble.py adds tn to "UNCHANGED <<tk, xm>>": written the other way round here)
        /\ UNCHANGED <<xm, tk>>
\* thread-private steps (no tracked effect, no system call) that lead up to the system call of a "sys" record
TSysPrep == /\ tl <= Len(Traces[tk])
            /\ Ev.k = "sys"
            /\ pc[cur[TIdx(Ev.t)]] \notin SysLabels[Ev.op]
            /\ pc[cur[TIdx(Ev.t)]] \notin PinnedLabels
            /\ Step(cur[TIdx(Ev.t)])
            /\ FrameOK(<<>>)
            /\ tn < MaxStepsPerEvent
            /\ tn' = tn + 1
            /\ UNCHANGED <<tk, tl, xm, mon>>
#! TRACENEXT
 \/ TSys \/ TSysPrep
#! POST
\* ---- invariants of the I/O layer
\* every fiber on a waiter list is WAITING (or about to be, holding the entry's lock) and on one list only
\* nobody is lost: a fiber waiting on a descriptor that is ready (or closed) is always going to be woken —
\* at quiescence (all kernel threads idle, nothing queued, nothing for epoll to report) the program has finished
IOQuiescent == Quiescent /\ \A fd \in Fds : ~PollReady(fd)
IOQuiescentImpliesDone == IOQuiescent => finished
\* a registered waiter is covered by an armed interest, or the entry is locked (somebody is updating it)
WaiterCovered == \A fd \in Fds : (WaitersOf(fd) # {} /\ wlk[fd].ticket = wlk[fd].users /\ ~kclosed[fd]) =>
                   (kint[fd].armed \/ \E f \in Fibers : iopl[f] # <<>>)
\* data: what was delivered plus what is still buffered is exactly what was written, in order
StreamOK == \A fd \in Fds : PeerOf[fd] # "none" =>
              LET all == dlv[fd] \o kbuf[fd] IN \A i \in 1..Len(all) : all[i] = (i - 1) % 8
NoEagainInBlockingMode == ~ioEagain
TicketOK == \A fd \in Fds : wlk[fd].ticket <= wlk[fd].users
