\* generator: -simulate prints one HIST line per behaviour of length MaxLen
SPECIFICATION Spec
CONSTANTS
  NCtx = 3
  NThreads = 2
  SizeRes = {0, 1, 7, 8, 9, 15}
  Pats = {1, 2, 3}
  MaxLen = 10
  Mode = "hist"
INVARIANTS EmitHook ResumeExact CanariesIntact EntryOK ReleasedOnce NoCrash
CHECK_DEADLOCK FALSE
