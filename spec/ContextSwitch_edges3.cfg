\* generator (thorough): every edge of the reachable graph, one kernel thread, three created contexts (chains)
SPECIFICATION Spec
CONSTANTS
  NCtx = 3
  NThreads = 1
  SizeRes = {8}
  Pats = {1}
  MaxLen = 6
  Mode = "edges"
INVARIANTS EmitHook
CHECK_DEADLOCK FALSE
