------------------------------ MODULE IOShim ------------------------------
(***************************************************************************)
(* Property C08, part A.  Sequential reference model ("PosixStream") of    *)
(* the descriptor calls libfiber shims (src/fiber_io.c): oracle and test   *)
(* generator for drivers/io_exec.c (model-based testing).                  *)
(*                                                                         *)
(* The model does NOT describe the shim; it describes what a plain POSIX   *)
(* blocking (or, in non-blocking mode, non-blocking) call on a stream      *)
(* socket / pipe may return, given                                         *)
(*   - the kind of the descriptor (valid kinds, and the invalid ones:      *)
(*     closed, never opened, negative, out of range),                      *)
(*   - the blocking mode the USER has requested (blk: set by default,      *)
(*     cleared by fcntl F_SETFL with O_NONBLOCK in the value or ioctl      *)
(*     FIONBIO 1, restored by FIONBIO 0 or F_SETFL without O_NONBLOCK),    *)
(*   - the bytes the peer has written and the caller has not yet read      *)
(*     (inb: sequence of byte ids, capacity Cap), whether the caller's     *)
(*     send direction is full, whether the peer is still open, and the     *)
(*     pending connections of a listener.                                  *)
(*                                                                         *)
(* Every action record carries                                             *)
(*   cls     "imm"   the call must return without the calling fiber ever   *)
(*                   being suspended (non-blocking mode / MSG_DONTWAIT /   *)
(*                   calls that never wait),                               *)
(*           "ready" blocking mode, the call can complete: it must return  *)
(*                   without anybody making the descriptor ready (the      *)
(*                   fiber may be suspended transiently),                  *)
(*           "block" blocking mode, the call cannot complete: it must NOT  *)
(*                   return until the helper performs `hact', and then     *)
(*                   return a result of `allowed',                         *)
(*   allowed the set of results POSIX permits, chosen the result this      *)
(*           path of the model continues with (a run whose observed result *)
(*           is allowed but not the chosen one is cut there; another       *)
(*           generated path covers it),                                    *)
(*   data    the byte ids a read-type call must deliver (for `chosen').    *)
(*                                                                         *)
(* Mode = "check": invariants only.  Mode = "edges": EmitHook prints one   *)
(* EDGE line per transition (edge cover by tools/check_c08.py).            *)
(* Mode = "hist": one HIST line per behaviour of MaxLen actions            *)
(* (-simulate).                                                            *)
(***************************************************************************)
EXTENDS Integers, Sequences, FiniteSets, TLC, Json

CONSTANTS Slots,      \* descriptor slots under test, e.g. {"d1","d2"}
          InitKinds,  \* [slot -> set of initial kinds]
          Cap,        \* capacity of the model's receive buffer in bytes (2)
          MaxLen,     \* bound on the number of actions
          Apis,       \* "all": every API variant; "min": one per class
          Mode        \* "check" | "edges" | "hist"

\* "unconn": unconnected stream socket whose connect() target is listening (the pending connect gets established);
\* "unconnr": its target address is bound but nobody listens (the pending connect is refused, asynchronously for TCP)
\* "unconnx": a socket whose connect() has failed (POSIX: its state is unspecified, it may only be closed or have
\* its flags changed; a further connect is not generated)
Valid   == {"sock", "piper", "pipew", "listener", "unconn", "unconnr", "unconnx"}
Invalid == {"closed", "never", "neg", "oor"}
Kinds   == Valid \cup Invalid
Readable(k) == k \in {"sock", "piper"}
Writable(k) == k \in {"sock", "pipew"}
IsSocket(k) == k \in {"sock", "listener", "unconn", "unconnr", "unconnx"}
IdMod == 2 * Cap        \* byte ids are stream positions modulo IdMod
BIG == 99               \* symbolic: a request larger than the kernel buffer

ReadApis  == IF Apis = "all" THEN {"read", "readv", "recv", "recvfrom", "recvmsg"} ELSE {"read", "recv"}
WriteApis == IF Apis = "all" THEN {"write", "writev", "send", "sendto", "sendmsg"} ELSE {"write", "send"}
HasFlags(api) == api \in {"recv", "recvfrom", "recvmsg", "send", "sendto", "sendmsg"}
NeedsSocket(api) == HasFlags(api)

VARIABLES kind, kind0, blk, app, inb, nid, full, peer, rst, pend, n, last, hist
core == <<kind, blk, app, inb, nid, full, peer, rst, pend>>
vars == <<core, kind0, n, last, hist>>
KeyStr == ToString(<<core, kind0>>)

NoAct == [t |-> "none", op |-> "", d |-> "", req |-> 0, dw |-> 0, cls |-> "", allowed |-> {},
          chosen |-> "", data |-> <<>>, hact |-> "", hn |-> 0, hdata |-> <<>>, post |-> [s \in Slots |-> <<>>], mode |-> "",
          dk |-> "", ik |-> [s \in Slots |-> ""]]

Min(a, b) == IF a < b THEN a ELSE b
Ok(k) == "ok:" \o ToString(k)
OkRange(k) == {Ok(i) : i \in 1..k}
Ids(from, k) == [i \in 1..k |-> (from + i - 1) % IdMod]
Take(s, k) == SubSeq(s, 1, k)
Drop(s, k) == SubSeq(s, k + 1, Len(s))

Init ==
  /\ kind \in [Slots -> Kinds] /\ \A s \in Slots : kind[s] \in InitKinds[s]
  /\ kind0 = kind
  /\ blk = [s \in Slots |-> TRUE]
  /\ app = [s \in Slots |-> FALSE]
  /\ inb = [s \in Slots |-> <<>>]
  /\ nid = [s \in Slots |-> 0]
  /\ full = [s \in Slots |-> FALSE]
  /\ peer = [s \in Slots |-> TRUE]
  /\ rst = [s \in Slots |-> FALSE]     \* the peer vanished with unread data: next read on a socket fails once
  /\ pend = [s \in Slots |-> 0]
  /\ n = 0 /\ last = [prev |-> "", act |-> NoAct] /\ hist = <<>>

\* bookkeeping shared by all actions: a is the action record (without post)
Emit(a) ==
  /\ n < MaxLen
  /\ n' = n + 1 /\ kind0' = kind0
  /\ LET b == [a EXCEPT !.post = [s \in Slots |-> inb'[s]], !.dk = kind[a.d], !.ik = kind0] IN
     /\ last' = IF Mode = "edges" THEN [prev |-> KeyStr, act |-> b] ELSE last
     /\ hist' = IF Mode = "hist" THEN Append(hist, b) ELSE hist

Env(op, d, k, dat) == [NoAct EXCEPT !.t = "env", !.op = op, !.d = d, !.req = k, !.data = dat]
ModeOf(d, dw) == IF blk[d] /\ dw = 0 THEN "blocking" ELSE "nonblocking"
Call(op, d, req, dw, cls, allowed, chosen, dat) ==
  [NoAct EXCEPT !.t = "call", !.op = op, !.d = d, !.req = req, !.dw = dw, !.cls = cls,
                !.allowed = allowed, !.chosen = chosen, !.data = dat,
                !.mode = IF kind[d] \in Valid THEN ModeOf(d, dw) ELSE "invalid"]
Blocked(a, hact, hn, hdata) == [a EXCEPT !.hact = hact, !.hn = hn, !.hdata = hdata]
\* class of a call that can complete at once
Cls(d, dw) == IF blk[d] /\ dw = 0 THEN "ready" ELSE "imm"

-----------------------------------------------------------------------------
(* environment: the peer (owned by the harness, raw system calls)          *)
PeerWrite(d, k) ==
  /\ Readable(kind[d]) /\ peer[d] /\ Len(inb[d]) + k <= Cap
  /\ inb' = [inb EXCEPT ![d] = @ \o Ids(nid[d], k)]
  /\ nid' = [nid EXCEPT ![d] = (@ + k) % IdMod]
  /\ UNCHANGED <<kind, blk, app, full, peer, rst, pend>>
  /\ Emit(Env("pw", d, k, Ids(nid[d], k)))
Fill(d) ==
  /\ Writable(kind[d]) /\ peer[d] /\ ~full[d]
  /\ full' = [full EXCEPT ![d] = TRUE]
  /\ UNCHANGED <<kind, blk, app, inb, nid, peer, rst, pend>>
  /\ Emit(Env("fill", d, 0, <<>>))
Drain(d) ==
  /\ Writable(kind[d]) /\ peer[d] /\ full[d]
  /\ full' = [full EXCEPT ![d] = FALSE]
  /\ UNCHANGED <<kind, blk, app, inb, nid, peer, rst, pend>>
  /\ Emit(Env("drain", d, 0, <<>>))
PeerClose(d) ==      \* the peer reads what is pending for it, then closes
  /\ (Readable(kind[d]) \/ Writable(kind[d])) /\ peer[d]
  /\ peer' = [peer EXCEPT ![d] = FALSE]
  /\ UNCHANGED <<kind, blk, app, inb, nid, full, rst, pend>>
  /\ Emit(Env("pclose", d, 0, <<>>))
PeerConnect(d) ==
  /\ kind[d] = "listener" /\ pend[d] = 0
  /\ pend' = [pend EXCEPT ![d] = 1]
  /\ UNCHANGED <<kind, blk, app, inb, nid, full, peer, rst>>
  /\ Emit(Env("pconn", d, 0, <<>>))

-----------------------------------------------------------------------------
(* calls made by the fiber under test                                      *)
Bad(op, d, req, dw) == Call(op, d, req, dw, "imm", {"err:EBADF"}, "err:EBADF", <<>>)

Read(d, api, req, dw) ==
  /\ api \in ReadApis /\ req \in 1..Cap /\ dw \in (IF HasFlags(api) THEN {0, 1} ELSE {0})
  /\ (api = "readv" => req = 2)                     \* two 1-byte iovecs
  /\ kind[d] \in Invalid \/ Readable(kind[d])
  /\ ~(NeedsSocket(api) /\ kind[d] = "piper")
  /\ UNCHANGED <<kind, blk, app, full, pend>>
  /\ IF kind[d] \in Invalid THEN
       /\ UNCHANGED <<inb, nid, peer, rst>> /\ Emit(Bad(api, d, req, dw))
     ELSE IF Len(inb[d]) > 0 THEN
       LET k == Min(req, Len(inb[d])) IN
       /\ inb' = [inb EXCEPT ![d] = Drop(@, k)]
       /\ UNCHANGED <<nid, peer, rst>>
       /\ Emit(Call(api, d, req, dw, Cls(d, dw), OkRange(k), Ok(k), Take(inb[d], k)))
     ELSE IF ~peer[d] /\ rst[d] THEN
       /\ rst' = [rst EXCEPT ![d] = FALSE] /\ UNCHANGED <<inb, nid, peer>>
       /\ Emit(Call(api, d, req, dw, Cls(d, dw), {"err:ECONNRESET"}, "err:ECONNRESET", <<>>))
     ELSE IF ~peer[d] THEN
       /\ UNCHANGED <<inb, nid, peer, rst>>
       /\ Emit(Call(api, d, req, dw, Cls(d, dw), {"ok:0"}, "ok:0", <<>>))
     ELSE IF ~blk[d] \/ dw = 1 THEN
       /\ UNCHANGED <<inb, nid, peer, rst>>
       /\ Emit(Call(api, d, req, dw, "imm", {"err:EAGAIN"}, "err:EAGAIN", <<>>))
     ELSE \* must suspend until the peer writes hn bytes, or closes
       \/ \E hn \in 1..req :
            /\ inb' = inb /\ peer' = peer /\ rst' = rst    \* all hn <= req bytes are consumed at once
            /\ nid' = [nid EXCEPT ![d] = (@ + hn) % IdMod]
            /\ Emit(Blocked(Call(api, d, req, dw, "block", OkRange(hn), Ok(hn), Ids(nid[d], hn)),
                            "pw", hn, Ids(nid[d], hn)))
       \/ /\ peer' = [peer EXCEPT ![d] = FALSE] /\ UNCHANGED <<inb, nid, rst>>
          /\ Emit(Blocked(Call(api, d, req, dw, "block", {"ok:0"}, "ok:0", <<>>), "pclose", 0, <<>>))

WriteOk(req) == IF req = BIG THEN {"ok:short", "ok:all"} ELSE OkRange(req)
WriteChosen(req) == IF req = BIG THEN "ok:short" ELSE Ok(req)
Write(d, api, req, dw) ==
  /\ api \in WriteApis /\ req \in {1, 2, BIG} /\ dw \in (IF HasFlags(api) THEN {0, 1} ELSE {0})
  /\ (api = "writev" => req = 2)
  /\ kind[d] \in Invalid \/ Writable(kind[d])
  /\ ~(NeedsSocket(api) /\ kind[d] = "pipew")
  /\ UNCHANGED <<kind, blk, app, inb, nid, pend>>
  /\ IF kind[d] \in Invalid THEN
       /\ UNCHANGED <<full, peer, rst>> /\ Emit(Bad(api, d, req, dw))
     ELSE IF ~peer[d] THEN
       /\ UNCHANGED <<full, peer, rst>>
       /\ Emit(Call(api, d, req, dw, Cls(d, dw), {"err:EPIPE"}, "err:EPIPE", <<>>))
     ELSE IF ~full[d] THEN
       /\ full' = [full EXCEPT ![d] = (req = BIG)] /\ UNCHANGED <<peer, rst>>
       /\ Emit(Call(api, d, req, dw, Cls(d, dw), WriteOk(req), WriteChosen(req), <<>>))
     ELSE IF ~blk[d] \/ dw = 1 THEN
       /\ UNCHANGED <<full, peer, rst>>
       /\ Emit(Call(api, d, req, dw, "imm", {"err:EAGAIN"}, "err:EAGAIN", <<>>))
     ELSE \* must suspend until the peer drains, or vanishes (closes without reading: "pkill")
       \/ /\ full' = [full EXCEPT ![d] = (req = BIG)] /\ UNCHANGED <<peer, rst>>
          /\ Emit(Blocked(Call(api, d, req, dw, "block", WriteOk(req), WriteChosen(req), <<>>), "drain", 0, <<>>))
       \/ /\ peer' = [peer EXCEPT ![d] = FALSE] /\ UNCHANGED full
          /\ rst' = [rst EXCEPT ![d] = (kind[d] = "sock")]
          /\ Emit(Blocked(Call(api, d, req, dw, "block", {"err:EPIPE"}, "err:EPIPE", <<>>), "pkill", 0, <<>>))

\* fcntl(F_SETFL, v): v = 0 none, 1 O_NONBLOCK, 2 O_NONBLOCK|O_APPEND, 3 O_APPEND
SetFl(d, v) ==
  /\ v \in 0..3
  /\ UNCHANGED <<kind, inb, nid, full, peer, rst, pend>>
  /\ IF kind[d] \in Invalid THEN UNCHANGED <<blk, app>> /\ Emit(Bad("setfl", d, v, 0))
     ELSE /\ blk' = [blk EXCEPT ![d] = (v \in {0, 3})]
          /\ app' = [app EXCEPT ![d] = (v \in {2, 3})]
          /\ Emit(Call("setfl", d, v, 0, "imm", {"ok:0"}, "ok:0", <<>>))
AccMode(k) == CASE k = "piper" -> "RDONLY" [] k = "pipew" -> "WRONLY" [] OTHER -> "RDWR"
FlStr(d) == "ok:" \o AccMode(kind[d]) \o (IF app[d] THEN "|APPEND" ELSE "") \o (IF blk[d] THEN "" ELSE "|NONBLOCK")
GetFl(d) ==
  /\ UNCHANGED core
  /\ IF kind[d] \in Invalid THEN Emit(Bad("getfl", d, 0, 0))
     ELSE Emit(Call("getfl", d, 0, 0, "imm", {FlStr(d)}, FlStr(d), <<>>))
Fionbio(d, v) ==
  /\ v \in {0, 1}
  /\ UNCHANGED <<kind, app, inb, nid, full, peer, rst, pend>>
  /\ IF kind[d] \in Invalid THEN UNCHANGED blk /\ Emit(Bad("fionbio", d, v, 0))
     ELSE /\ blk' = [blk EXCEPT ![d] = (v = 0)]
          /\ Emit(Call("fionbio", d, v, 0, "imm", {"ok:0"}, "ok:0", <<>>))
Close(d) ==
  /\ IF kind[d] \in Invalid THEN UNCHANGED core /\ Emit(Bad("close", d, 0, 0))
     ELSE /\ kind' = [kind EXCEPT ![d] = "closed"]
          /\ blk' = [blk EXCEPT ![d] = TRUE] /\ app' = [app EXCEPT ![d] = FALSE]
          /\ inb' = [inb EXCEPT ![d] = <<>>] /\ nid' = [nid EXCEPT ![d] = 0]
          /\ full' = [full EXCEPT ![d] = FALSE] /\ peer' = [peer EXCEPT ![d] = TRUE]
          /\ rst' = [rst EXCEPT ![d] = FALSE]
          /\ pend' = [pend EXCEPT ![d] = 0]
          /\ Emit(Call("close", d, 0, 0, "imm", {"ok:0"}, "ok:0", <<>>))
Accept(d) ==
  /\ kind[d] \in Invalid \cup {"listener", "sock", "piper", "pipew"}
  /\ UNCHANGED <<kind, blk, app, inb, nid, full, peer, rst>>
  /\ IF kind[d] \in Invalid THEN UNCHANGED pend /\ Emit(Bad("accept", d, 0, 0))
     ELSE IF kind[d] = "sock" THEN
       UNCHANGED pend /\ Emit(Call("accept", d, 0, 0, Cls(d, 0), {"err:EINVAL"}, "err:EINVAL", <<>>))
     ELSE IF kind[d] \in {"piper", "pipew"} THEN
       UNCHANGED pend /\ Emit(Call("accept", d, 0, 0, Cls(d, 0), {"err:ENOTSOCK"}, "err:ENOTSOCK", <<>>))
     ELSE IF pend[d] > 0 THEN
       /\ pend' = [pend EXCEPT ![d] = @ - 1]
       /\ Emit(Call("accept", d, 0, 0, Cls(d, 0), {"ok:fd"}, "ok:fd", <<>>))
     ELSE IF ~blk[d] THEN
       UNCHANGED pend /\ Emit(Call("accept", d, 0, 0, "imm", {"err:EAGAIN"}, "err:EAGAIN", <<>>))
     ELSE
       UNCHANGED pend /\ Emit(Blocked(Call("accept", d, 0, 0, "block", {"ok:fd"}, "ok:fd", <<>>), "pconn", 0, <<>>))
\* connect to a listener owned by the harness (which accepts at once and becomes the peer)
Connect(d) ==
  /\ kind[d] \in Invalid \cup {"unconn", "unconnr", "piper", "pipew"}
  /\ UNCHANGED <<blk, app, inb, nid, full, peer, rst, pend>>
  /\ IF kind[d] \in Invalid THEN UNCHANGED kind /\ Emit(Bad("connect", d, 0, 0))
     ELSE IF kind[d] = "unconnr" THEN
       \* abstract kernel: the pending connect resolves to "refused".  The blocking call reports that outcome
       \* (never success); a non-blocking call may return before the outcome is known.
       /\ kind' = [kind EXCEPT ![d] = "unconnx"]
       /\ Emit(Call("connect", d, 0, 0, Cls(d, 0),
                    IF blk[d] THEN {"err:ECONNREFUSED"} ELSE {"err:ECONNREFUSED", "err:EINPROGRESS"}, "err:ECONNREFUSED", <<>>))
     ELSE IF kind[d] \in {"piper", "pipew"} THEN
       UNCHANGED kind /\ Emit(Call("connect", d, 0, 0, Cls(d, 0), {"err:ENOTSOCK"}, "err:ENOTSOCK", <<>>))
     ELSE
       /\ kind' = [kind EXCEPT ![d] = "sock"]
       \* a non-blocking connect may also report that it is in progress
       /\ Emit(Call("connect", d, 0, 0, Cls(d, 0),
                    IF blk[d] THEN {"ok:0"} ELSE {"ok:0", "err:EINPROGRESS"}, "ok:0", <<>>))

Next ==
  \E d \in Slots :
    \/ \E k \in 1..Cap : PeerWrite(d, k)
    \/ Fill(d) \/ Drain(d) \/ PeerClose(d) \/ PeerConnect(d)
    \/ \E api \in ReadApis, req \in 1..Cap, dw \in {0, 1} : Read(d, api, req, dw)
    \/ \E api \in WriteApis, req \in {1, 2, BIG}, dw \in {0, 1} : Write(d, api, req, dw)
    \/ \E v \in 0..3 : SetFl(d, v)
    \/ GetFl(d)
    \/ \E v \in {0, 1} : Fionbio(d, v)
    \/ Close(d) \/ Accept(d) \/ Connect(d)
Spec == Init /\ [][Next]_vars

-----------------------------------------------------------------------------
(* the oracle has the properties C08 states (checked on every transition   *)
(* through the record of the last action; Mode = "edges" or "hist")        *)
A == IF Mode = "edges" THEN last.act ELSE IF Len(hist) > 0 THEN hist[Len(hist)] ELSE NoAct
IsCall == A.t = "call"
TypeOK == /\ \A s \in Slots : kind[s] \in Kinds /\ Len(inb[s]) <= Cap /\ pend[s] \in 0..1
\* a call on a descriptor in blocking mode never fails with EAGAIN
NeverEagainWhenBlocking == (IsCall /\ A.mode = "blocking") => "err:EAGAIN" \notin A.allowed
\* non-blocking mode / MSG_DONTWAIT: immediate return
NonblockingImmediate == (IsCall /\ A.mode = "nonblocking") => A.cls = "imm"
\* invalid descriptor: error return
InvalidIsEBADF == (IsCall /\ A.mode = "invalid") => (A.allowed = {"err:EBADF"} /\ A.cls = "imm")
\* a transfer may be short but never empty (0 only at end of stream)
NeverEmpty == (IsCall /\ "ok:0" \in A.allowed /\ A.op \in ReadApis \cup WriteApis) => (A.op \in ReadApis /\ A.allowed = {"ok:0"})
\* data: exactly the oldest unread bytes, in order
DataInOrder == (IsCall /\ A.op \in ReadApis /\ A.cls # "block" /\ Len(A.data) > 0) =>
                 \A i \in 1..(Len(A.data) - 1) : A.data[i + 1] = (A.data[i] + 1) % IdMod
\* the completion of a connect is reported faithfully: success only if the target listens
ConnectOutcome == (IsCall /\ A.op = "connect" /\ A.dk = "unconnr") => "ok:0" \notin A.allowed
OracleOK == TypeOK /\ ConnectOutcome /\ NeverEagainWhenBlocking /\ NonblockingImmediate /\ InvalidIsEBADF /\ NeverEmpty /\ DataInOrder

EmitHook ==
  /\ (Mode = "edges" /\ n = 0) => PrintT(<<"INIT", KeyStr>>)
  /\ (Mode = "edges" /\ n > 0) => PrintT(<<"EDGE", last.prev, ToJson(last.act), KeyStr>>)
  /\ (Mode = "hist" /\ n = MaxLen) => PrintT(<<"HIST", ToJson(hist)>>)

\* initial-kind tables used by the configuration files
IK_sock     == [s \in Slots |-> {"sock"}]
IK_pipe     == [s \in Slots |-> {"piper", "pipew"}]
IK_listener == [s \in Slots |-> {"listener"}]
IK_unconn   == [s \in Slots |-> {"unconn", "unconnr"}]
IK_invalid  == [s \in Slots |-> Invalid]
IK_mixed    == [s \in Slots |-> IF s = "d1" THEN {"sock"} ELSE Invalid]
IK_two      == [s \in Slots |-> IF s = "d1" THEN {"sock"} ELSE {"sock", "piper", "pipew"}]
IK_any      == [s \in Slots |-> Kinds \ {"unconnx"}]
=============================================================================
