\* generated once by hand (see tools/check_c08.py TIERS); Mode "edges": every transition is printed
SPECIFICATION Spec
CONSTANTS
  Slots = {"d1", "d2"}
  InitKinds <- IK_any
  Cap = 2
  MaxLen = 12
  Apis = "all"
  Mode = "hist"
INVARIANTS EmitHook OracleOK
CHECK_DEADLOCK FALSE
