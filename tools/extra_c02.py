#!/usr/bin/env python3
"""C02 (deque part): memory-order re-check of src/work_stealing_deque.c against x86-TSO.

The harness serialises the kernel threads, so a recorded execution is sequentially consistent and
can never exhibit a store->load reordering.  What the code ASKS of the hardware is recorded instead:
every atomic event carries "mo", the memory_order argument the code passed.  This script

 1. extracts, from every recorded execution, the order of pop_bottom's store of `bottom` that
    precedes its load of `top` (first `AS` event on dq.bottom inside
    wsd_work_stealing_deque_pop_bottom of each pop call);
 2. binds the WSDeque model constant PopStoreIsSC to "all of them are seq_cst (5)" and re-runs the
    store-buffer (TSO = TRUE) configurations of the model exhaustively: with a weaker store TLC
    exhibits the double take of the last element (NoDup) - reported as a violation although no
    serialised run can show it;
 3. compares every atomic access of the deque functions with the table REQUIRED (what the current
    sources pass; DESIGN.md section 9): a weaker order is reported, a stronger one accepted;
 4. checks, for every recorded call, that the program order of the accesses to the tracked memory
    (top, bottom, underlying_array, array slots) is the label order of the model's procedure
    (table ACCESS_ORDER).  Trace validation explains an event without a memory effect (a load) by
    zero or more model steps, so two loads swapped in the code (steal reading bottom before top) only
    show up in the rare schedules where the outcome differs; the program order of one thread in a
    serialised run is exactly what the compiled code does, so this check sees it in every execution.

Use from check.py:   import extra_c02;  extra_c02.run(ev, report, tier, seed0, outdir)
                     (outdir = $VERIF_OUT_DIR/C02; traces are read from outdir/traces/*.ndjson)
Standalone:          python3 tools/extra_c02.py <trace-dir> [--tier quick|thorough]
                     exit 0 = held, 1 = VIOLATION line(s) printed, 2 = infrastructure problem.
"""
import copy, glob, json, os, re, sys, time

ROOT = os.path.dirname(os.path.dirname(os.path.abspath(__file__)))
sys.path.insert(0, os.path.join(ROOT, "tools"))
import thread_mc  # noqa: E402
import tracecheck  # noqa: E402

POP = "wsd_work_stealing_deque_pop_bottom"
PUSH = "wsd_work_stealing_deque_push_bottom"
STEAL = "wsd_work_stealing_deque_steal"
# store-buffer configurations of the model that are re-checked with the extracted order
TSO_SCENARIOS = {"quick": ["wsd_tso"], "thorough": ["wsd_tso", "wsd_tso3"]}
# (function, tracked field, event kind) -> orders the sources pass, in order of occurrence within one call
# (memory_order values: 0 relaxed, 1 consume, 2 acquire, 3 release, 4 acq_rel, 5 seq_cst)
REQUIRED = {
    (PUSH, "dq.bottom", "AL"): [2],
    (PUSH, "dq.top", "AL"): [2],
    (PUSH, "dq.underlying_array", "AL"): [5],
    (PUSH, "dq.underlying_array", "AS"): [5],
    (PUSH, "dq.bottom", "AS"): [3],
    (POP, "dq.bottom", "AL"): [2],
    (POP, "dq.underlying_array", "AL"): [5],
    (POP, "dq.bottom", "AS"): [5, 3],      # bottom = b (seq_cst: store->load fence), then the fix-up store
    (POP, "dq.top", "AL"): [5],
    (POP, "dq.top", "CAS"): [5],
    (STEAL, "dq.top", "AL"): [2],
    (STEAL, "dq.bottom", "AL"): [2],
    (STEAL, "dq.underlying_array", "AL"): [5],
    (STEAL, "dq.top", "CAS"): [5],
}
# program order of the tracked accesses of one call = label order of the procedure in
# spec/thread/WSDeque.tla.in (P1 P2 P3 [G1* P4] P5 P6 / O1 O2 O3 O4 (O5 | O6 [O7 O8]) / S1 S2 S3 [S4 S5])
ACCESS_ORDER = {
    "push": r"AL:bottom AL:top AL:underlying_array( (R:slot W:slot )+AS:underlying_array)? W:slot AS:bottom",
    "pop": r"AL:bottom AL:underlying_array AS:bottom AL:top( AS:bottom| R:slot( CAS:top AS:bottom)?)",
    "steal": r"AL:top AL:bottom AL:underlying_array( R:slot CAS:top)?",
}
LIB_FNS = {PUSH, POP, STEAL, "wsd_circular_array_grow", "wsd_circular_array_get", "wsd_circular_array_put"}
MO_NAME = {0: "relaxed", 1: "consume", 2: "acquire", 3: "release", 4: "acq_rel", 5: "seq_cst"}


def at_least(mo, req):
    """is order `mo` at least as strong as `req`?"""
    if mo == req or mo == 5 or req == 0:
        return True
    if mo == 4 and req in (1, 2, 3):
        return True
    if req == 1 and mo == 2:
        return True
    return False


def scan(path):
    """returns (list of mo of the first bottom store of every pop call, list of (event, required) weaker
    than REQUIRED, list of (op, access sequence) that are not in ACCESS_ORDER)"""
    pop_orders, weak, misordered = [], [], []
    count = {}     # thread -> {(field, kind): occurrences within the call}
    calls = {}     # thread -> [op, [tokens]] of the call in progress
    for line in open(path, errors="replace"):
        line = line.strip()
        if not line:
            continue
        try:
            e = json.loads(line)
        except Exception:
            continue
        t = e.get("t")
        if e.get("k") == "api":
            if e.get("ph") == "call":
                count[t] = {}
                calls[t] = [e.get("op"), []]
            elif e.get("ph") == "ret" and t in calls:
                op, toks = calls.pop(t)
                if op in ACCESS_ORDER and not re.fullmatch(ACCESS_ORDER[op], " ".join(toks)):
                    misordered.append((op, " ".join(toks)))
            continue
        if t in calls and e.get("fn") in LIB_FNS and "a" in e:
            obj, fld = e["a"].split(".", 1)
            if obj == "dq":
                calls[t][1].append(f"{e['k']}:{fld}")
            elif re.fullmatch(r"a\d+", obj):
                calls[t][1].append(f"{e['k']}:slot")
        if "mo" not in e or "a" not in e:
            continue
        key = (e.get("fn"), e["a"], e["k"])
        if key not in REQUIRED:
            continue
        c = count.setdefault(t, {})
        n = c.get(key, 0)
        c[key] = n + 1
        reqs = REQUIRED[key]
        req = reqs[min(n, len(reqs) - 1)]
        if key == (POP, "dq.bottom", "AS") and n == 0:
            pop_orders.append(e["mo"])
        if not at_least(e["mo"], req):
            weak.append((e, req))
    return pop_orders, weak, misordered


def recheck(trace_dir, tier, report, ev=None, outdir=None, workers=8):
    outdir = outdir or trace_dir
    paths = sorted(glob.glob(os.path.join(trace_dir, "wsd_*.ndjson")))
    if not paths:
        raise RuntimeError(f"no wsd_*.ndjson traces in {trace_dir}")
    orders, seen_weak, seen_mis = [], {}, {}
    for p in paths:
        po, weak, mis = scan(p)
        orders += po
        for op, seq in mis:
            seen_mis.setdefault((op, seq), p)
        for e, req in weak:
            seen_weak.setdefault((e.get("fn"), e["a"], e["k"], e["mo"], req), p)
    for (fn, a, k, mo, req), p in sorted(seen_weak.items()):
        report(f"memory order weaker than required: {fn} {k} on {a} passes {MO_NAME.get(mo, mo)}, "
               f"the design requires {MO_NAME.get(req, req)}", p,
               {"kind": "memory_order", "fn": fn, "a": a})
    for (op, seq), p in sorted(seen_mis.items())[:5]:
        report(f"program order of the shared accesses of {op} differs from the model's label order: "
               f"recorded `{seq}`, model `{ACCESS_ORDER[op]}`", p, {"kind": "access_order", "op": op})
    if not orders:
        report("cannot extract the memory order of pop_bottom's store of bottom: no such event in "
               f"{len(paths)} recorded executions", paths[0], {"kind": "memory_order", "fn": POP, "a": "dq.bottom"})
        return None
    is_sc = all(mo == 5 for mo in orders)
    weakest = min(orders, key=lambda m: (m == 5, m))
    info = {"pop_bottom_store_orders": sorted(set(orders)), "pop_calls": len(orders), "traces": len(paths),
            "PopStoreIsSC": is_sc, "runs": []}
    for sname in TSO_SCENARIOS.get(tier, TSO_SCENARIOS["quick"]):
        sp = os.path.join(ROOT, "scen", sname + ".json")
        if not os.path.exists(sp):
            continue
        scen = copy.deepcopy(json.load(open(sp)))
        scen["name"] = sname + "_bound"
        scen["consts"]["TSO"] = True
        scen["consts"]["PopStoreIsSC"] = is_sc
        thread_mc.gen(scen)
        t0 = time.time()
        rc, out = tracecheck.run_tlc(f"MC_{scen['name']}.cfg", f"MC_{scen['name']}.tla", None, workers, 1500, dfs=False)
        st = {"scenario": scen["name"], "mode": "exhaustive-TSO", "rc": rc, "PopStoreIsSC": is_sc, "wall_s": round(time.time() - t0, 1)}
        m = re.search(r"(\d+) states generated, (\d+) distinct states found", out)
        if m:
            st["generated"], st["distinct"] = int(m.group(1)), int(m.group(2))
        st["violated"] = re.findall(r"Invariant (\w+) is violated", out)
        st["complete"] = "Model checking completed. No error has been found" in out
        info["runs"].append(st)
        if ev is not None:
            ev["coverage"]["tlc_runs"].append(st)
            ev["coverage"]["transitions"] += st.get("generated", 0)
            ev["coverage"]["states"] += st.get("distinct", 0)
        if st["violated"]:
            p = os.path.join(outdir, f"tso_recheck_{sname}.txt")
            open(p, "w").write(out)
            for inv in st["violated"]:
                report(f"x86-TSO re-check: pop_bottom publishes bottom with memory_order {MO_NAME.get(weakest, weakest)} "
                       f"(extracted from {len(orders)} recorded pop calls); with per-thread store buffers the model "
                       f"{sname} violates {inv} (an entry is handed to two takers)", p,
                       {"kind": "tso", "scenario": sname, "invariant": inv})
        elif not st["complete"]:
            raise RuntimeError(f"TLC failed on {scen['name']}: rc={rc}\n{out[-1500:]}")
    return info


def run(ev, report, tier, seed0, outdir):
    """entry point for tools/check.py (props/C02.json "extra")"""
    info = recheck(os.path.join(outdir, "traces"), tier, report, ev=ev, outdir=outdir)
    if info is not None:
        ev["coverage"]["memory_order_binding"] = {k: v for k, v in info.items() if k != "runs"}


def main():
    args = [a for a in sys.argv[1:] if not a.startswith("--")]
    if not args:
        print(__doc__)
        return 2
    tier = sys.argv[sys.argv.index("--tier") + 1] if "--tier" in sys.argv else "quick"
    found = []

    def report(desc, replay, sig):
        found.append((desc, replay))

    try:
        info = recheck(args[0], tier, report)
    except RuntimeError as e:
        print("INFRASTRUCTURE ERROR:", e, file=sys.stderr)
        return 2
    if info:
        print(json.dumps(info), file=sys.stderr)
    for desc, rp in found:
        print(f"VIOLATION property=C02 replay={rp}")
        print("  " + desc, file=sys.stderr)
    return 1 if found else 0


if __name__ == "__main__":
    sys.exit(main())
