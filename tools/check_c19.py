#!/usr/bin/env python3
"""Property C19 (context switch): model-based testing with the TLA+ model
spec/ContextSwitch.tla as oracle and generator.

  python3 tools/check_c19.py --tier quick|thorough      (env: VERIF_SEED, REPO, VERIF_BUILD_DIR, VERIF_OUT_DIR)
  python3 tools/check_c19.py --replay <replay.json>

 1. build drivers/ctx_exec.c + drivers/ctx_shim.S + $REPO/src/fiber_context.c four ways
    (split/mmap/malloc stacks with the assembly switch, malloc stacks with ucontext);
 2. TLC: exhaustive check of the model's invariants for all action sequences up to a
    bound, plus two non-vacuity witnesses;
 3. TLC as generator: (a) every edge of the reachable graph of a small configuration is
    printed and walked for an edge cover, (b) `-simulate` behaviours with a history
    variable.  Every action record carries the observations the model expects;
 4. every behaviour is made concrete (symbols -> distinct 64-bit values, size residues ->
    real sizes; seeded), executed on every variant, and the observation lines are compared
    with the model's expectations;
 5. evidence/C19.json.  Exit 0 held, 1 VIOLATION printed, 2 infrastructure problem.
"""
import concurrent.futures as cf
import hashlib, json, os, random, re, shutil, subprocess, sys, tempfile, time

ROOT = os.path.dirname(os.path.dirname(os.path.abspath(__file__)))
REPO = os.environ.get("REPO", "/repo")
BUILD = os.environ.get("VERIF_BUILD_DIR", os.path.join(ROOT, "build"))
OUT = os.path.join(os.environ.get("VERIF_OUT_DIR", os.path.join(ROOT, "out")), "C19")
SPEC = os.path.join(ROOT, "spec")
PROP = "C19"
TLC_WORKERS = int(os.environ.get("VERIF_TLC_WORKERS", "8"))
EXEC_WORKERS = int(os.environ.get("VERIF_EXEC_WORKERS", "8"))

VARIANTS = [
    ("split_asm", ["-DFIBER_STACK_SPLIT", "-fsplit-stack", "-DFIBER_FAST_SWITCHING"],
     ["-Wl,--wrap=__splitstack_makecontext,--wrap=__splitstack_releasecontext"]),
    ("mmap_asm", ["-DFIBER_STACK_MMAP", "-DFIBER_FAST_SWITCHING"], []),
    ("malloc_asm", ["-DFIBER_STACK_MALLOC", "-DFIBER_FAST_SWITCHING"], []),
    ("malloc_ucontext", ["-DFIBER_STACK_MALLOC"], []),
]
WRAP = "-Wl,--wrap=malloc,--wrap=free,--wrap=mmap,--wrap=munmap"
PROD = ["-O2", "-g", "-DNDEBUG", "-Wall", "-pthread", "-D_REENTRANT"]

TIERS = {
    # check cfg, edges cfgs, [(hist cfg, depth, generated, kept)]
    "quick": {"check": "ContextSwitch_check_quick.cfg", "edges": ["ContextSwitch_edges.cfg"],
              "hist": [("ContextSwitch_hist.cfg", 10, 1500, 400)], "tlc_timeout": 600},
    "thorough": {"check": "ContextSwitch_check.cfg", "edges": ["ContextSwitch_edges.cfg", "ContextSwitch_edges3.cfg"],
                 "hist": [("ContextSwitch_hist.cfg", 10, 12000, 4000), ("ContextSwitch_hist_long.cfg", 24, 6000, 3000)],
                 "tlc_timeout": 3000},
}


class Infra(Exception):
    pass


def log(*a):
    print(*a, file=sys.stderr, flush=True)


# ------------------------------------------------------------------ build
def build_variants(bdir):
    os.makedirs(bdir, exist_ok=True)
    built, skipped = {}, []
    src = os.path.join(REPO, "src", "fiber_context.c")
    inc = os.path.join(REPO, "include")
    if not os.path.exists(src):
        raise Infra(f"{src} not found")
    for name, defs, ldx in VARIANTS:
        d = os.path.join(bdir, name)
        shutil.rmtree(d, ignore_errors=True)
        os.makedirs(d)
        if "-fsplit-stack" in defs:
            probe = os.path.join(d, "probe.c")
            open(probe, "w").write(
                "#include <stddef.h>\nextern void* __splitstack_makecontext(size_t, void**, size_t*);\n"
                "extern void __splitstack_releasecontext(void**);\n"
                "int main(){void* c[10]; size_t s; void* p=__splitstack_makecontext(16384,c,&s);"
                " __splitstack_releasecontext(c); return p?0:1;}\n")
            r = subprocess.run(["gcc", "-O2", "-fsplit-stack", "-pthread", probe, "-o", os.path.join(d, "probe")],
                               capture_output=True, text=True)
            ok = r.returncode == 0 and subprocess.run([os.path.join(d, "probe")]).returncode == 0
            if not ok:
                skipped.append({"variant": name, "reason": "toolchain cannot link/run -fsplit-stack programs: " + r.stderr[-300:]})
                continue
        cmds = [
            ["gcc"] + PROD + ["-I" + inc] + defs + ["-c", src, "-o", os.path.join(d, "fiber_context.o")],
            ["gcc", "-O2", "-g", "-Wall", "-pthread", "-I" + inc] + defs +
            ["-c", os.path.join(ROOT, "drivers", "ctx_exec.c"), "-o", os.path.join(d, "ctx_exec.o")],
            ["gcc", "-c", os.path.join(ROOT, "drivers", "ctx_shim.S"), "-o", os.path.join(d, "ctx_shim.o")],
            ["gcc", "-pthread"] + [x for x in defs if x.startswith("-f")] +
            [os.path.join(d, "fiber_context.o"), os.path.join(d, "ctx_exec.o"), os.path.join(d, "ctx_shim.o"), WRAP] + ldx +
            ["-o", os.path.join(d, "ctx_exec")],
        ]
        for c in cmds:
            r = subprocess.run(c, capture_output=True, text=True)
            if r.returncode != 0:
                log(" ".join(c))
                log(r.stderr[-3000:])
                raise Infra(f"build of variant {name} failed")
        built[name] = os.path.join(d, "ctx_exec")
    return built, skipped


# ------------------------------------------------------------------ TLC
def run_tlc(cfg, extra=None, workers=1, timeout=600):
    work = tempfile.mkdtemp(prefix="c19tlc_", dir=os.environ.get("TMPDIR", "/tmp"))
    try:
        shutil.copy(os.path.join(SPEC, "ContextSwitch.tla"), work)
        shutil.copy(os.path.join(SPEC, cfg), work)
        cmd = ["tlc", "-workers", str(workers), "-metadir", os.path.join(work, "meta"), "-config", cfg] + (extra or []) + \
              ["ContextSwitch.tla"]
        outp = os.path.join(work, "out.txt")
        t0 = time.time()
        env = dict(os.environ)
        env["JAVA_TOOL_OPTIONS"] = env.get("JAVA_TOOL_OPTIONS", "-Xmx3g") + f" -Djava.io.tmpdir={work}"  # small model, shared machine; TLC's scratch directory goes away with `work`
        for attempt in (1, 2):
            try:
                with open(outp, "w") as fo:
                    r = subprocess.run(cmd, cwd=work, stdout=fo, stderr=subprocess.STDOUT, timeout=timeout, env=env)
                rc = r.returncode
            except subprocess.TimeoutExpired:
                rc = -9
            out = open(outp, errors="replace").read()
            if rc in (0, 12, 13) or "Finished in" in out or "Error:" in out:
                break
            log(f"TLC ended abnormally (rc={rc}) on {cfg}, attempt {attempt}")
            shutil.rmtree(os.path.join(work, "meta"), ignore_errors=True)
        return rc, out, round(time.time() - t0, 1)
    finally:
        shutil.rmtree(work, ignore_errors=True)


def tlc_stats(out):
    st = {}
    m = re.search(r"(\d+) states generated, (\d+) distinct states found", out)
    if m:
        st["generated"], st["distinct"] = int(m.group(1)), int(m.group(2))
    m = re.search(r"depth of the complete state graph search is (\d+)", out)
    if m:
        st["depth"] = int(m.group(1))
    st["violated"] = re.findall(r"Invariant (\w+) is violated", out)
    st["complete"] = "Model checking completed. No error has been found" in out
    return st


def tla_strings(line):
    """the TLA+ string literals in a printed tuple, unescaped"""
    res, i, n = [], 0, len(line)
    while i < n:
        if line[i] == '"':
            i += 1
            buf = []
            while i < n and line[i] != '"':
                if line[i] == "\\" and i + 1 < n:
                    i += 1
                    buf.append({"n": "\n", "t": "\t"}.get(line[i], line[i]))
                else:
                    buf.append(line[i])
                i += 1
            res.append("".join(buf))
        i += 1
    return res


def gen_edge_cover(cfg, timeout):
    """(paths, stats): paths = lists of action records covering every edge of the reachable graph"""
    rc, out, secs = run_tlc(cfg, workers=1, timeout=timeout)
    st = tlc_stats(out)
    if not st.get("complete"):
        log(out[-2000:])
        raise Infra(f"TLC edge generation failed ({cfg})")
    init = None
    edges = []          # (src, dst, act)
    outs = {}           # src -> [edge index]
    for line in out.splitlines():
        if line.startswith('<<"EDGE"'):
            s = tla_strings(line)
            if len(s) != 4:
                raise Infra("cannot parse EDGE line")
            src = hashlib.md5(s[1].encode()).digest()
            dst = hashlib.md5(s[3].encode()).digest()
            outs.setdefault(src, []).append(len(edges))
            edges.append((src, dst, json.loads(s[2])))
        elif line.startswith('<<"INIT"'):
            init = hashlib.md5(tla_strings(line)[1].encode()).digest()
    if init is None or not edges:
        raise Infra("no edges printed by TLC")
    # BFS tree from the initial state
    parent = {init: None}
    depth = {init: 0}
    order = [init]
    for u in order:
        for ei in outs.get(u, []):
            v = edges[ei][1]
            if v not in parent:
                parent[v] = ei
                depth[v] = depth[u] + 1
                order.append(v)
    covered = [False] * len(edges)
    paths = []
    for ei in sorted(range(len(edges)), key=lambda k: -depth.get(edges[k][0], -1)):
        if covered[ei]:
            continue
        if edges[ei][0] not in parent:
            raise Infra("edge from unreachable state")
        pre = []
        u = edges[ei][0]
        while parent[u] is not None:
            pre.append(parent[u])
            u = edges[parent[u]][0]
        path = pre[::-1] + [ei]
        u = edges[ei][1]
        while True:  # extend through uncovered edges
            nxt = [k for k in outs.get(u, []) if not covered[k] and k not in path]
            if not nxt:
                break
            path.append(nxt[0])
            u = edges[nxt[0]][1]
        for k in path:
            covered[k] = True
        paths.append([edges[k][2] for k in path])
    assert all(covered)
    st.update({"cfg": cfg, "mode": "edges", "edges": len(edges), "graph_states": len(parent), "paths": len(paths), "secs": secs})
    return paths, st


def gen_simulate(cfg, depth, num, keep, seed, timeout):
    rc, out, secs = run_tlc(cfg, extra=["-simulate", f"num={num}", "-depth", str(depth + 1), "-seed", str(seed)],
                            workers=1, timeout=timeout)
    if "Error:" in out and "HIST" not in out:
        log(out[-2000:])
        raise Infra(f"TLC simulation failed ({cfg})")
    viol = re.findall(r"Invariant (\w+) is violated", out)
    seqs, seen = [], set()
    for line in out.splitlines():
        if line.startswith('<<"HIST"'):
            s = tla_strings(line)
            h = hashlib.md5(s[1].encode()).digest()
            if h in seen:
                continue
            seen.add(h)
            seqs.append(json.loads(s[1]))
    if not seqs:
        log(out[-2000:])
        raise Infra(f"TLC simulation produced no behaviours ({cfg})")
    # prefer switch-rich behaviours (uniform simulation favours init/destroy), keep the rest random
    rnd = random.Random(seed * 7919 + depth)
    rnd.shuffle(seqs)
    score = lambda q: sum(1 for a in q if a["a"] == "swap") + 2 * sum(
        1 for a in q if a["a"] == "swap" and a["exp"]["kind"] == "resume" and a["thread"] == 1 and a["to"] >= 2)
    rich = sorted(seqs, key=score, reverse=True)[: (keep * 3) // 4]
    ids = {id(q) for q in rich}
    rest = [q for q in seqs if id(q) not in ids][: keep - len(rich)]
    m = re.search(r"The number of states generated: (\d+)", out)
    st = {"cfg": cfg, "mode": "simulate", "depth": depth, "behaviours": len(seqs), "kept": len(rich) + len(rest),
          "generated": int(m.group(1)) if m else 0, "violated": viol, "secs": secs}
    return rich + rest, st, out


# ------------------------------------------------------------------ making a behaviour concrete
SPECIAL = [0xFFFFFFFFFFFFFFFF, 0x8000000000000000, 0x7FFFFFFFFFFFFFFF, 1, 2, 0xFFFFFFFF, 0x100000000,
           0xFFFFFFFF00000000, 0x00007FFFFFFFFFFF, 0xFFFF800000000000, 0xDEADBEEFDEADBEEF, 16, 8]
SIZE_BASES = [4096, 8192, 16384, 20480, 32768, 65536, 131072, 262144, 1048576, 4194304]


class Concrete:
    """symbols of the model -> distinct 64-bit values; size residues -> real sizes"""

    def __init__(self, seed, sid):
        self.rnd = random.Random(f"{seed}/{sid}")
        self.map = {}
        self.used = {0}

    def val(self, sym):
        key = json.dumps(sym)
        if sym[0] == "zero":
            return 0
        if key not in self.map:
            while True:
                v = self.rnd.choice(SPECIAL) if self.rnd.random() < 0.12 else self.rnd.getrandbits(64)
                if v not in self.used:
                    break
            self.used.add(v)
            self.map[key] = v
        return self.map[key]

    def size(self, res):
        return self.rnd.choice(SIZE_BASES) + res


def concretise(seq, seed, sid):
    """-> (input text for ctx_exec, expected list).  Inputs (what to plant, sizes, args) and expectations
    (exp/post of the TLC action records) are kept apart: the executor only gets the inputs."""
    cz = Concrete(seed, sid)
    nthreads = 2 if any(a["a"] == "handover" for a in seq) or any(a.get("thread") == 1 for a in seq) else 1
    lines = [f"T {nthreads}"]
    exp = []
    tcan = {}  # initial locals of the thread contexts (the model's Init state): planted by their first R line
    for t in range(2):
        tcan[t] = [cz.val(["can", t, 0, i]) for i in (1, 2)]
    # thread contexts start with pattern-0 locals: plant them with an R line each before anything else
    pre = [f"R 0 {tcan[0][0]:x} {tcan[0][1]:x}"]
    first_on_t1 = True
    for a in seq:
        k = a["a"]
        post = {"rel": [h["rel"] for h in a["post"]["heap"]], "live": a["post"]["live"]}
        if k == "init":
            size = cz.size(a["res"])
            lines.append(f"I {a['by']} {a['c']} {size} {cz.val(a['arg']):x}")
            exp.append({"line": "init", "c": a["c"], "ok": a["exp"]["ok"], **post})
        elif k == "setregs":
            lines.append(f"R {a['c']} {cz.val(a['can'][0]):x} {cz.val(a['can'][1]):x}")
            exp.append({"line": "setregs", "c": a["c"], **post})
        elif k == "swap":
            e = a["exp"]
            nc = [cz.val(x) for x in a["newcan"]] if a["newcan"] else [0, 0]
            lines.append(f"S {a['thread']} {a['from']} {a['to']} " + " ".join(f"{cz.val(x):x}" for x in a["plant"]) +
                         f" {nc[0]:x} {nc[1]:x}")
            x = {"line": "swap", "kind": e["kind"], "to": a["to"], "thread": a["thread"], "stk": e["stk"],
                 "svstk": e["svstk"], **post}
            if e["kind"] == "entry":
                x.update({"arg": cz.val(e["arg"]), "spmod": e["spmod"]})
            else:
                x.update({"regs": [cz.val(v) for v in e["regs"]], "can": [cz.val(v) for v in e["can"]],
                          "spsame": e["spsame"]})
            exp.append(x)
        elif k == "destroy":
            lines.append(f"D {a['by']} {a['c']}")
            exp.append({"line": "destroy", "c": a["c"], "stack": a["stack"], "stack_rel": a["exp"]["rel"], **post})
        elif k == "handover":
            lines.append(f"H {a['from']} {a['to']}")
            exp.append({"line": "handover", **post})
            if a["to"] == 1 and first_on_t1:
                first_on_t1 = False
                lines.append(f"R 1 {tcan[1][0]:x} {tcan[1][1]:x}")
                exp.append({"line": "setregs", "c": 1, "aux": True, **post})
        else:
            raise Infra(f"unknown action {k}")
    last = exp[-1] if exp else {"rel": [], "live": 0}
    text = "\n".join(lines[:1] + pre + lines[1:]) + "\n"
    exp = [{"line": "setregs", "c": 0, "aux": True, "rel": [], "live": 0}] + exp
    exp.append({"line": "end", "rel": last["rel"], "live": last["live"]})
    return text, exp


def parse_obs(line):
    parts = line.split()
    d = {"line": parts[0]}
    for p in parts[1:]:
        if "=" in p:
            k, v = p.split("=", 1)
            d[k] = v
    return d


def compare(exp, rc, out):
    """None if the observations equal the expectations, else (kind, description)"""
    try:
        return _compare(exp, rc, out)
    except (KeyError, ValueError, IndexError) as ex:
        return ("mismatch", f"unparsable observation ({ex!r})")


def _compare(exp, rc, out):
    if rc is None:
        return ("hang", "executor timed out")
    lines = [l for l in out.splitlines() if l.strip()]
    obs = [parse_obs(l) for l in lines]
    for i, e in enumerate(exp):
        if i >= len(obs):
            why = f"signal {-rc}" if rc < 0 else f"exit {rc}"
            return ("crash" if rc < 0 else "mismatch", f"no observation for expected line {i} ({e['line']}); executor ended with {why}")
        o = obs[i]
        if o["line"] == "error":
            return ("mismatch", f"control arrived where the sequence does not allow it: {lines[i]}")
        # step numbers of the executor count the auxiliary R lines too: compare by position
        if o["line"] != e["line"]:
            return ("mismatch", f"line {i}: expected a '{e['line']}' observation, got: {lines[i]}")

        def bad(what, want, got):
            return ("mismatch", f"line {i} ({lines[i][:60]}...): {what}: model expects {want}, implementation shows {got}")

        if e["line"] == "init":
            if int(o["ok"]) != e["ok"]:
                return bad("fiber_context_init result", e["ok"], o["ok"])
            if o["tracked"] != "1":
                return ("imbalance", f"line {i}: the stack of the new context was not obtained from the allocator: {lines[i]}")
        if e["line"] == "swap":
            if o.get("kind") != e["kind"]:
                return bad("fresh entry vs resumption", e["kind"], o.get("kind"))
            if int(o["to"]) != e["to"] or int(o["thread"]) != e["thread"]:
                return bad("context/thread that continues", (e["to"], e["thread"]), (o["to"], o["thread"]))
            if e["kind"] == "entry":
                if int(o["arg"], 16) != e["arg"]:
                    return bad("argument at function entry", hex(e["arg"]), o["arg"])
                if int(o["spmod"]) != e["spmod"]:
                    return bad("rsp mod 16 at function entry", e["spmod"], o["spmod"])
            else:
                got = [int(x, 16) for x in o["regs"].split(",")]
                if got != e["regs"]:
                    names = ["rbx", "rbp", "r12", "r13", "r14", "r15"]
                    diff = [f"{names[j]}: want {e['regs'][j]:x} got {got[j]:x}" for j in range(6) if got[j] != e["regs"][j]]
                    return bad("callee-saved registers on resumption", "the values it had when switched out", "; ".join(diff))
                gc = [int(x, 16) for x in o["can"].split(",")]
                if gc != e["can"]:
                    return bad("stack contents (locals) on resumption", [hex(v) for v in e["can"]], o["can"])
                if int(o["spsame"]) != e["spsame"]:
                    return bad("stack pointer equal to the one at switch-out", e["spsame"], o["spsame"])
            if int(o["stk"]) != e["stk"]:
                return bad("stack the context runs on", e["stk"], o["stk"])
            if int(o["svstk"]) != e["svstk"]:
                return bad("stack holding the saved state of the switched-out context", e["svstk"], o["svstk"])
        rel = [] if o.get("rel", "-") == "-" else [int(x) for x in o["rel"].split(",")]
        if rel != e["rel"]:
            k = "imbalance"
            return (k, f"line {i} ({e['line']}): release counts of the stacks allocated so far: model expects {e['rel']}, "
                       f"allocator saw {rel}")
        if int(o["live"]) != e["live"]:
            return ("imbalance", f"line {i}: live stacks: model {e['live']}, allocator {o['live']}")
        if o.get("aux_leak") != "0" or o.get("aux_over") != "0":
            return ("imbalance", f"line {i}: auxiliary allocation of a context leaked or released early/twice: {lines[i]}")
    if len(obs) != len(exp):
        return ("mismatch", f"{len(obs)} observation lines for {len(exp)} expected")
    if rc != 0:
        return ("crash" if rc < 0 else "mismatch", f"executor ended with {rc}")
    return None


def execute(binary, text):
    try:
        r = subprocess.run([binary], input=text, capture_output=True, text=True, timeout=20)
        return r.returncode, r.stdout
    except subprocess.TimeoutExpired as ex:
        return None, (ex.stdout or b"").decode(errors="replace") if isinstance(ex.stdout, bytes) else (ex.stdout or "")


def abstract(seq):
    """compact printable form of a behaviour"""
    res = []
    for a in seq:
        k = a["a"]
        if k == "init":
            res.append(f"init(c{a['c']}, size%16={a['res']}) by c{a['by']}")
        elif k == "setregs":
            res.append(f"setregs(c{a['c']}, pattern {a['regs'][0][2]})")
        elif k == "swap":
            e = a["exp"]
            what = (f"entry: arg={e['arg']}, rsp%16={e['spmod']}" if e["kind"] == "entry" else
                    f"resume: regs pattern {e['regs'][0][2]} of c{e['regs'][0][1]}, locals pattern {e['can'][0][2]}")
            res.append(f"swap(c{a['from']} -> c{a['to']}) on thread {a['thread']} => {what}")
        elif k == "destroy":
            res.append(f"destroy(c{a['c']}) by c{a['by']} => stack#{a['stack']} released {a['exp']['rel']}x")
        else:
            res.append(f"handover(thread {a['from']} -> {a['to']})")
    return res


# ------------------------------------------------------------------ main
def check(tier, seed):
    t0 = time.time()
    cfgt = TIERS[tier]
    shutil.rmtree(OUT, ignore_errors=True)
    os.makedirs(OUT, exist_ok=True)
    ev = {"property_id": PROP, "tier": tier, "seed": seed, "level": "model_checking",
          "coverage": {"states": 0, "transitions": 0, "traces_validated_against_impl": 0, "samples": [], "tlc_runs": [],
                       "checker_cmd": "tlc (TLC2) via tools/check_c19.py; executor drivers/ctx_exec.c", "repo": REPO},
          "assumptions": [
              "x86-64 SysV ABI; gcc -O2 -g -DNDEBUG builds of fiber_context.c (the flags of the check, not every optimisation level)",
              "caller-saved registers, FPU/SSE control words and signal masks are outside the property and the model",
              "a kernel thread's own (thread) context is only resumed by that thread; created contexts migrate between two kernel threads",
              "the model abstracts a requested stack size to size mod 16; real sizes are drawn from 4 KiB .. 4 MiB + residue",
              "run functions never return (the assembly back-end gives them a NULL return address)"],
          "violations": 0}
    cov = ev["coverage"]
    violations = []  # (desc, replay)

    # (1) build
    built, skipped = build_variants(os.path.join(BUILD, "c19"))
    cov["variants_skipped"] = skipped
    if not built:
        raise Infra("no variant could be built")

    # (2) exhaustive model checking + non-vacuity
    with cf.ThreadPoolExecutor(max_workers=3) as ex:
        f_check = ex.submit(run_tlc, cfgt["check"], None, TLC_WORKERS, cfgt["tlc_timeout"])
        f_w = [ex.submit(run_tlc, c, None, 1, 300) for c in ("ContextSwitch_witness.cfg", "ContextSwitch_witness2.cfg")]
        rc, out, secs = f_check.result()
        wres = [f.result() for f in f_w]
    st = tlc_stats(out)
    cov["tlc_runs"].append({"cfg": cfgt["check"], "mode": "exhaustive", "secs": secs, **st})
    if st.get("violated"):
        p = os.path.join(OUT, "design_violation.txt")
        open(p, "w").write(out)
        for inv in st["violated"]:
            violations.append((f"design: TLC finds {inv} violated in the model ({cfgt['check']})", p))
    elif not st.get("complete"):
        log(out[-3000:])
        raise Infra("TLC exhaustive check did not complete")
    cov["states"] += st.get("distinct", 0)
    cov["transitions"] += st.get("generated", 0)
    cov["model_exhaustive_up_to_bound"] = bool(st.get("complete"))  # the MODEL, not the implementation tests
    for (rcw, outw, secsw), name in zip(wres, ("W_Migrated", "W_Reinit")):
        sw = tlc_stats(outw)
        cov["tlc_runs"].append({"cfg": name, "mode": "witness (must be reachable)", "reached": name in sw["violated"], "secs": secsw})
        if name not in sw["violated"]:
            log(outw[-2000:])
            raise Infra(f"vacuity: witness {name} is not reachable in the model")

    # (3) generation
    seqs = []  # (origin, seq)
    for cfg in cfgt["edges"]:
        paths, stg = gen_edge_cover(cfg, cfgt["tlc_timeout"])
        cov["tlc_runs"].append(stg)
        cov["states"] += stg.get("distinct", 0)
        cov["transitions"] += stg.get("generated", 0)
        seqs += [("edge-cover:" + cfg, p) for p in paths]
    for cfg, depth, num, keep in cfgt["hist"]:
        ss, stg, outg = gen_simulate(cfg, depth, num, keep, seed, cfgt["tlc_timeout"])
        cov["tlc_runs"].append(stg)
        cov["transitions"] += stg.get("generated", 0)
        if stg["violated"]:
            p = os.path.join(OUT, "design_violation_sim.txt")
            open(p, "w").write(outg)
            violations.append((f"design: simulation finds {stg['violated']} violated in the model ({cfg})", p))
        seqs += [(f"simulate:{cfg}", q) for q in ss]
    cov["sequences_generated"] = len(seqs)
    cov["actions_generated"] = sum(len(q) for _, q in seqs)
    cov["swap_actions"] = sum(1 for _, q in seqs for a in q if a["a"] == "swap")
    cov["cross_thread_resumptions"] = sum(1 for _, q in seqs for a in q if a["a"] == "swap" and a["thread"] == 1
                                          and a["to"] >= 2 and a["exp"]["kind"] == "resume")

    # (4) execute and compare
    conc = [concretise(q, seed, i) for i, (_, q) in enumerate(seqs)]
    per_variant = {}
    ok_all = [True] * len(seqs)
    for vname, binary in built.items():
        with cf.ThreadPoolExecutor(max_workers=EXEC_WORKERS) as ex:
            results = list(ex.map(lambda c: execute(binary, c[0]), conc))
        nmatch, kinds, first = 0, {}, {}
        for i, ((rc, outp), (text, exp)) in enumerate(zip(results, conc)):
            v = compare(exp, rc, outp)
            if v is None:
                nmatch += 1
                continue
            ok_all[i] = False
            kinds[v[0]] = kinds.get(v[0], 0) + 1
            if v[0] not in first:
                first[v[0]] = (i, v[1], rc, outp)
        per_variant[vname] = {"executed": len(conc), "matching": nmatch, "failures": kinds}
        for kind, (i, desc, rc, outp) in first.items():
            # confirm by running once more (a flaky failure is an infrastructure problem)
            rc2, out2 = execute(binary, conc[i][0])
            if compare(conc[i][1], rc2, out2) is None:
                raise Infra(f"non-reproducible failure on variant {vname}: {desc}")
            rp = os.path.join(OUT, f"replay_{vname}_{kind}.json")
            sq = os.path.join(OUT, f"replay_{vname}_{kind}.seq")
            open(sq, "w").write(conc[i][0])
            json.dump({"property": PROP, "variant": vname, "kind": kind, "what": desc, "origin": seqs[i][0],
                       "abstract": abstract(seqs[i][1]), "sequence_file": sq, "input": conc[i][0], "expected": conc[i][1],
                       "observed": outp, "exit": rc, "actions": seqs[i][1], "seed": seed,
                       "rerun": f"REPO={REPO} python3 tools/check_c19.py --replay {rp}"}, open(rp, "w"), indent=1)
            violations.append((f"{vname}: {kind} in {kinds[kind]} of {len(conc)} sequences; first: {desc}", rp))
    cov["variants"] = per_variant
    cov["executions"] = sum(v["executed"] for v in per_variant.values())
    cov["executions_matching"] = sum(v["matching"] for v in per_variant.values())
    cov["traces_validated_against_impl"] = sum(1 for x in ok_all if x)
    for origin_prefix in ("edge-cover", "simulate"):
        for i, (origin, q) in enumerate(seqs):
            if origin.startswith(origin_prefix) and sum(1 for a in q if a["a"] == "swap") >= 2:
                cov["samples"].append({"origin": origin, "behaviour": abstract(q), "executor_input": conc[i][0].splitlines(),
                                       "matched_on_all_variants": ok_all[i]})
                break
    if not cov["samples"]:
        cov["samples"].append({"origin": seqs[0][0], "behaviour": abstract(seqs[0][1])})

    ev["wall_s"] = round(time.time() - t0, 1)
    ev["violations"] = len(violations)
    evdir = os.environ.get("VERIF_EVIDENCE_DIR", os.path.join(ROOT, "evidence"))
    os.makedirs(evdir, exist_ok=True)
    json.dump(ev, open(os.path.join(evdir, PROP + ".json"), "w"), indent=1)
    for vname, pv in per_variant.items():
        log(f"  {vname}: {pv['matching']}/{pv['executed']} sequences match the model {pv['failures'] or ''}")
    for s in skipped:
        log(f"  SKIPPED variant {s['variant']}: {s['reason']}")
    for desc, rp in violations[:12]:
        print(f"VIOLATION property={PROP} replay={rp}")
        log("  " + desc)
    return 1 if violations else 0


def replay(path):
    r = json.load(open(path))
    built, _ = build_variants(os.path.join(BUILD, "c19"))
    if r["variant"] not in built:
        raise Infra(f"variant {r['variant']} not available")
    rc, out = execute(built[r["variant"]], r["input"])
    v = compare(r["expected"], rc, out)
    print(f"replayed {path} on {r['variant']} (recorded: {r['kind']}: {r['what']})")
    for l in r["abstract"]:
        print("   ", l)
    print(out)
    print("RESULT:", "matches the model" if v is None else f"{v[0]}: {v[1]}")
    return 0 if v is None else 1


def main():
    tier = os.environ.get("VERIF_TIER", "quick")
    if "--tier" in sys.argv:
        tier = sys.argv[sys.argv.index("--tier") + 1]
    seed = int(os.environ.get("VERIF_SEED", "1"))
    try:
        if "--replay" in sys.argv:
            return replay(sys.argv[sys.argv.index("--replay") + 1])
        if tier not in TIERS:
            raise Infra(f"unknown tier {tier}")
        return check(tier, seed)
    except Infra as e:
        log("INFRASTRUCTURE ERROR:", e)
        return 2


if __name__ == "__main__":
    sys.exit(main())
