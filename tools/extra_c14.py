#!/usr/bin/env python3
"""C14, DESIGN section 9: bind the memory-model parameter of MpmcFifoHP to the code.

The controlled scheduler serialises the threads, so a recorded execution is sequentially
consistent and can never SHOW what goes wrong when the store_load_barrier of
hazard_pointer_using is removed or weakened.  What the runs do show is whether the code
ASKS for the barrier: the fence hook writes a `fence` event (kind 2 = store_load_barrier,
kind 10+memory_order = atomic_thread_fence).  This script

  1. scans the recorded traces for every hazard publication (a step that writes a non-null
     value into a field hp<k> of a record r<t>) and decides whether, before the next access
     of the same thread (the validating re-read), a store->load fence is executed
     (fence kind 2, a seq_cst atomic_thread_fence, or the publication itself being a locked
     operation / seq_cst atomic store);
  2. binds the TLA+ constant HasFence of the x86-TSO configuration `mpmc_tso` (per-thread
     FIFO store buffers) to the result and re-runs TLC exhaustively;
  3. reports a violation (V2: the design as extracted from the code violates the property)
     if TLC finds an invariant violated, i.e. reclamation of a validated node;
  4. additionally scans every trace for an access to a field of an object after its `free`
     event.  vrt.c resolves the accessed object BEFORE the thread is parked at the scheduling
     point, so the access of a thread that was parked on a node while another thread freed it
     -- the interesting one -- is not reported as `dead_access` by the runtime; the trace
     still shows it (event with "a":"<obj>.<field>" after {"k":"free","o":"<obj>"}).

Used as an `extra` hook of tools/check.py (props/C14.json "extra": ["extra_c14"]):
   run(ev, report, tier, seed0, outdir)
or stand-alone:   python3 tools/extra_c14.py [--tier quick|thorough] [--traces DIR]
(stand-alone without --traces: uses $VERIF_OUT_DIR/C14/traces if present, otherwise builds
the harness from $REPO and records a few executions of scenario mpmc_2c itself).
Exit 0: held, 1: VIOLATION printed, 2: infrastructure problem (e.g. no publication seen).
"""
import glob, json, os, re, sys

ROOT = os.path.dirname(os.path.dirname(os.path.abspath(__file__)))
sys.path.insert(0, os.path.join(ROOT, "tools"))

TSO_SCEN = "mpmc_tso"
STEP_KINDS = {"R", "W", "VR", "VW", "AL", "AS", "XCHG", "RMW", "CAS", "CAS2", "CALL", "SYS", "RELAX", "start"}
LOCKED = {"XCHG", "RMW", "CAS", "CAS2"}
HP_FIELD = re.compile(r"^hp\d+$")
REC_NAME = re.compile(r"^r\d+$")


def is_publication(e):
    for w in e.get("w", []):
        if len(w) == 3 and REC_NAME.match(str(w[0])) and HP_FIELD.match(str(w[1])) and w[2] not in ("null", None):
            return True
    return False


def analyse(events):
    """returns (publications, fenced, first unfenced event or None)"""
    pubs = fenced = 0
    bad = None
    pending = {}  # thread -> [event, fenced?]

    def close(t):
        nonlocal pubs, fenced, bad
        e, ok = pending.pop(t)
        pubs += 1
        if ok:
            fenced += 1
        elif bad is None:
            bad = e

    for e in events:
        t, k = e.get("t"), e.get("k")
        if k == "fence":
            if t in pending and (e.get("kind") == 2 or e.get("kind") == 15):
                pending[t][1] = True
            continue
        if k not in STEP_KINDS and k != "cont":
            continue
        if k != "cont" and t in pending:
            close(t)  # the next access of the publishing thread: the fence had to come before it
        if is_publication(e):
            strong = k in LOCKED or (k == "AS" and e.get("mo") == 5)
            if t in pending:
                close(t)
            pending[t] = [e, strong]
    for t in list(pending):
        close(t)
    return pubs, fenced, bad


def stale_accesses(events):
    """accesses (events naming a field "obj.fld") to an object after its `free` event"""
    freed, out = set(), []
    for e in events:
        if e.get("k") == "free":
            freed.add(e.get("o"))
        elif e.get("k") in STEP_KINDS and "." in str(e.get("a", "")):
            if str(e["a"]).split(".")[0] in freed:
                out.append(e)
    return out


def extract(trace_files):
    import tracecheck
    pubs = fenced = 0
    bad = None
    for p in trace_files:
        a, b, c = analyse(tracecheck.load_ndjson(p))
        pubs += a
        fenced += b
        if bad is None and c is not None:
            bad = (p, c)
    return pubs, fenced, bad


def recheck(has_fence, workers=8, timeout=900):
    import thread_mc, tracecheck
    scen = json.load(open(os.path.join(ROOT, "scen", TSO_SCEN + ".json")))
    scen["name"] = TSO_SCEN + "_bound"
    scen["consts"]["HasFence"] = bool(has_fence)
    scen["consts"]["TSO"] = True
    thread_mc.gen(scen)
    rc, out = tracecheck.run_tlc(f"MC_{scen['name']}.cfg", f"MC_{scen['name']}.tla", None, workers, timeout, dfs=False)
    st = {"rc": rc, "violated": re.findall(r"Invariant (\w+) is violated", out),
          "complete": "Model checking completed. No error has been found" in out}
    m = re.search(r"(\d+) states generated, (\d+) distinct states found", out)
    if m:
        st["generated"], st["distinct"] = int(m.group(1)), int(m.group(2))
    return st, out


def _infra(msg):
    """raise check.py's Infra (exit 2, no VIOLATION line) when running under it"""
    cls = getattr(sys.modules.get("__main__"), "Infra", None) or RuntimeError
    raise cls(msg)


def run(ev, report, tier, seed0, outdir, trace_dir=None):
    """hook for tools/check.py (cfgp['extra']); returns the status dict"""
    files = sorted(glob.glob(os.path.join(trace_dir or os.path.join(outdir, "traces"), "*.ndjson")))
    import tracecheck
    nstale = 0
    for p in files:
        st_acc = stale_accesses(tracecheck.load_ndjson(p))
        if st_acc:
            nstale += 1
            if nstale <= 3:
                report(f"{os.path.basename(p)}: access to reclaimed memory by a thread that was parked on it: "
                       f"{json.dumps(st_acc[0])[:200]}", p,
                       {"kind": "dead_access", "scenario": os.path.basename(p).rsplit("_", 1)[0],
                        "obj": str(st_acc[0].get("a")).split(".")[0], "fn": st_acc[0].get("fn")})
    pubs, fenced, bad = extract(files)
    if pubs == 0:
        _infra("extra_c14: no hazard-pointer publication found in the recorded traces "
               f"({len(files)} files): cannot bind HasFence")
    has_fence = fenced == pubs
    st, out = recheck(has_fence)
    rec = {"scenario": TSO_SCEN, "mode": "exhaustive, x86-TSO store buffers, HasFence extracted from the traces",
           "HasFence": has_fence, "publications_seen": pubs, "publications_fenced": fenced,
           **{k: v for k, v in st.items()}}
    if ev is not None:
        ev["coverage"]["tlc_runs"].append(rec)
        if "generated" in st:
            ev["coverage"]["transitions"] += st["generated"]
            ev["coverage"]["states"] += st["distinct"]
    if st["violated"]:
        os.makedirs(outdir, exist_ok=True)
        p = os.path.join(outdir, "design_tso_recheck.txt")
        with open(p, "w") as f:
            if bad:
                f.write(f"hazard publication without a store->load fence before the thread's next access:\n"
                        f"  trace {bad[0]}\n  event {json.dumps(bad[1])}\n"
                        f"publications seen {pubs}, fenced {fenced} => HasFence = FALSE\n\n")
            f.write(out)
        for inv in st["violated"]:
            report(f"design under x86-TSO with the fence parameters extracted from the code (HasFence={has_fence}, "
                   f"{fenced}/{pubs} publications fenced): TLC finds {inv} violated in {TSO_SCEN}", p,
                   {"kind": "design", "scenario": TSO_SCEN, "invariant": inv})
    elif not st["complete"]:
        _infra("extra_c14: TLC did not complete on the TSO configuration:\n" + out[-1500:])
    return rec


def main():
    tier = "quick"
    tdir = None
    a = sys.argv[1:]
    if "--tier" in a:
        tier = a[a.index("--tier") + 1]
    if "--traces" in a:
        tdir = a[a.index("--traces") + 1]
    out_root = os.environ.get("VERIF_OUT_DIR", os.path.join(ROOT, "out"))
    outdir = os.path.join(out_root, "C14")
    if tdir is None and glob.glob(os.path.join(outdir, "traces", "*.ndjson")):
        tdir = os.path.join(outdir, "traces")
    try:
        if tdir is None:
            import check
            scen = check.load_scen("mpmc_2c")
            check.gen_mc_for(scen, {})
            bdir = check.build("thread", scen["binary"])
            tdir = os.path.join(outdir, "traces_extra")
            check.run_traces(os.path.join(bdir, scen["binary"]), scen, list(range(1, 11)), tdir)
        viol = []
        rec = run(None, lambda d, p, s: viol.append((d, p)), tier, 1, outdir, trace_dir=tdir)
    except Exception as e:  # infrastructure
        print("INFRASTRUCTURE ERROR:", e, file=sys.stderr)
        return 2
    print(json.dumps(rec), file=sys.stderr)
    for d, p in viol:
        print(f"VIOLATION property=C14 replay={p}")
        print("  " + d, file=sys.stderr)
    return 1 if viol else 0


if __name__ == "__main__":
    sys.exit(main())
