#!/bin/bash
# builds drivers/io_exec.c + the library sources of $REPO into $OUT/io_exec_asan (AddressSanitizer:
# out-of-bounds accesses to the fd tables become crashes) and $OUT/io_exec_prod (-O2, as shipped).
# Both with -DNDEBUG (asserts compiled out, as in the release configuration of the repository).
set -e
REPO=${REPO:-/repo}
OUT=${OUT:-/tmp/ioexec}
V=$(cd "$(dirname "$0")/.." && pwd)
mkdir -p $OUT
DEFS="-DFIBER_STACK_MALLOC -DFIBER_FAST_SWITCHING -DNDEBUG -D_GNU_SOURCE -D_REENTRANT -U_FORTIFY_SOURCE"
INC="-I$REPO/include -I$REPO/src"
LIBSRC="fiber fiber_manager fiber_scheduler_wsd fiber_context fiber_mutex fiber_semaphore fiber_spinlock fiber_cond fiber_barrier fiber_io fiber_rwlock hazard_pointer work_stealing_deque work_queue fiber_event_native"
build() { # name flags
  local name=$1; shift
  local d=$OUT/obj_$name
  mkdir -p $d
  pids=()
  for f in $LIBSRC; do
    gcc -std=gnu11 -g "$@" $DEFS $INC -w -c $REPO/src/$f.c -o $d/$f.o & pids+=($!)
  done
  gcc -std=gnu11 -g "$@" $DEFS $INC -Wall -Wno-unused-function -Wno-format-truncation -c $V/drivers/io_exec.c -o $d/io_exec.o & pids+=($!)
  for p in "${pids[@]}"; do wait $p; done
  gcc "$@" -o $OUT/io_exec_$name $d/*.o -lpthread -ldl
}
build asan -O1 -fno-omit-frame-pointer -fsanitize=address
build prod -O2
echo built $OUT/io_exec_asan $OUT/io_exec_prod
