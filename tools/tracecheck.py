#!/usr/bin/env python3
"""Trace validation helpers: run TLC on packed traces; diagnose a rejection."""
import json, os, re, subprocess, sys, tempfile, shutil

ROOT = os.path.dirname(os.path.dirname(os.path.abspath(__file__)))
GEN = os.path.join(ROOT, "spec", "gen")


def load_ndjson(path):
    evs = []
    for line in open(path, errors="replace"):
        line = line.strip()
        if not line:
            continue
        try:
            e = json.loads(line)
        except Exception:
            continue
        e.setdefault("w", [])
        e.setdefault("t", "t0")
        evs.append(e)
    return evs


def pack(traces, out):
    json.dump(traces, open(out, "w"))


def run_tlc(cfg, module, env=None, workers=4, timeout=600, extra=None, gen=GEN, dfs=True):
    meta = tempfile.mkdtemp(prefix="tlcmeta_")
    e = dict(os.environ)
    if env:
        e.update(env)
    if dfs:
        e["JAVA_TOOL_OPTIONS"] = "-Dtlc2.tool.queue.IStateQueue=StateDeque"
    cmd = ["tlc", "-workers", str(workers), "-metadir", meta, "-config", cfg, module] + (extra or [])
    try:
        r = subprocess.run(cmd, cwd=gen, env=e, capture_output=True, text=True, timeout=timeout)
        out = r.stdout + r.stderr
        rc = r.returncode
    except subprocess.TimeoutExpired as ex:
        out = (ex.stdout or b"").decode(errors="replace") if isinstance(ex.stdout, bytes) else (ex.stdout or "")
        rc = -9
    finally:
        shutil.rmtree(meta, ignore_errors=True)
    return rc, out


def validate(scen_name, traces, workers=4, timeout=900, tmpdir=None):
    """returns (accepted_indices(1-based set), tlc_output, stats)"""
    tmpdir = tmpdir or tempfile.mkdtemp(prefix="vrt_tr_")
    path = os.path.join(tmpdir, f"traces_{scen_name}.json")
    pack(traces, path)
    rc, out = run_tlc(f"MCT_{scen_name}.cfg", f"MCT_{scen_name}.tla", {"VRT_TRACES": path}, workers, timeout)
    acc = set(int(m) for m in re.findall(r'<<"ACCEPT", (\d+)>>', out))
    st = {}
    m = re.search(r"(\d+) states generated, (\d+) distinct states found", out)
    if m:
        st = {"generated": int(m.group(1)), "distinct": int(m.group(2))}
    st["rc"] = rc
    viol = re.findall(r"Invariant (\w+) is violated", out)
    st["violated"] = viol
    if "Error:" in out and not viol:
        st["error"] = out[out.find("Error:"):][:2000]
    return acc, out, st


def diagnose(scen_name, trace, timeout=300):
    tmpdir = tempfile.mkdtemp(prefix="vrt_dg_")
    path = os.path.join(tmpdir, "one.json")
    pack([trace], path)
    rc, out = run_tlc(f"MCD_{scen_name}.cfg", f"MCT_{scen_name}.tla", {"VRT_TRACES": path}, 1, timeout)
    ats = [int(m) for m in re.findall(r'<<"AT", 1, (\d+)>>', out)]
    mx = max(ats) if ats else 0
    rc2, out2 = run_tlc(f"MCE_{scen_name}.cfg", f"MCT_{scen_name}.tla", {"VRT_TRACES": path, "VRT_MAXL": str(mx)}, 1,
                        timeout)
    shutil.rmtree(tmpdir, ignore_errors=True)
    # last state printed
    idx = out2.rfind("State ")
    last = out2[idx:] if idx >= 0 else out2[-3000:]
    return mx, last, out


if __name__ == "__main__":
    scen = sys.argv[1]
    trs = [load_ndjson(p) for p in sys.argv[2:]]
    acc, out, st = validate(scen, trs)
    print("accepted", sorted(acc), "of", len(trs), st)
    for i, t in enumerate(trs, 1):
        if i not in acc:
            mx, last, _ = diagnose(scen, t)
            print(f"--- trace {i} rejected at event {mx} of {len(t)}")
            for e in t[max(0, mx - 4):mx + 2]:
                print("   ", json.dumps(e))
            print(last[:6000])
            break
