#!/usr/bin/env python3
"""Trace validation helpers: run TLC on packed traces; diagnose a rejection."""
import time
import json, os, re, subprocess, sys, tempfile, shutil

ROOT = os.path.dirname(os.path.dirname(os.path.abspath(__file__)))
GEN = os.environ.get("VERIF_GEN_DIR", os.path.join(ROOT, "spec", "gen"))


def load_ndjson(path):
    evs = []
    for line in open(path, errors="replace"):
        line = line.strip()
        if not line:
            continue
        try:
            e = json.loads(line)
        except Exception:
            continue
        e.setdefault("w", [])
        e.setdefault("t", "t0")
        if e.get("k") == "api":
            for fld, d in (("f", ""), ("ph", ""), ("op", ""), ("o", ""), ("r", 0), ("v", ""), ("n", 0), ("s", 0), ("u", 0)):
                e.setdefault(fld, d)
        elif e.get("k") == "env":
            # environment events as monitor input of the monitor-only validation (op "env:<action>")
            for fld, d in (("f", ""), ("ph", ""), ("op", "env:" + str(e.get("a", ""))), ("o", ""), ("r", 0), ("v", ""), ("n", 0), ("s", 0), ("u", 0)):
                e.setdefault(fld, d)
        evs.append(e)
    add_nfn(evs)
    return evs


STEP_KINDS = {"reg", "R", "W", "VR", "VW", "AL", "AS", "XCHG", "RMW", "CAS", "CAS2", "CALL", "RET", "SYS", "RELAX", "cont",
              "start"}


def add_nfn(evs):
    """nfn: function containing the next scheduling point of the same thread"""
    nxt = {}
    for e in reversed(evs):
        if e.get("k") == "sys":
            # a logged system call of the io shim pins the position too (pseudo function sys_<op>)
            e["nfn"] = ""
            e.setdefault("fds", [])
            e.setdefault("evs", [])
            nxt[e["t"]] = "sys_" + e.get("op", "")
        elif e.get("k") in STEP_KINDS:
            # pa: key under which the event may be pinned to a model label (CallLabels of the spec)
            k, fn, a = e.get("k"), e.get("fn", ""), e.get("a", "")
            if k in ("CALL", "CAS2"):
                e["pa"] = fn
            elif fn and "." in a and k in ("R", "W", "VR", "VW", "AL", "AS", "XCHG", "RMW", "CAS"):
                cls = "R" if k in ("R", "VR", "AL") else "W" if k in ("W", "VW", "AS") else k
                e["pa"] = fn + ":" + a.rsplit(".", 1)[1] + ":" + cls
            else:
                e["pa"] = ""
            e["nfn"] = nxt.get(e["t"], "")
            fn = e.get("fn", "")
            if e["k"] in ("cont", "reg"):
                pass
            elif e["k"] == "start" or not fn or fn == "?":
                nxt[e["t"]] = ""
            else:
                nxt[e["t"]] = fn
        else:
            e.setdefault("nfn", "")


def pack(traces, out):
    json.dump(traces, open(out, "w"))


def run_tlc(cfg, module, env=None, workers=4, timeout=600, extra=None, gen=GEN, dfs=True, heap=None, cancel=None):
    """dfs=True: trace validation (single worker, depth-first queue, small heap);
    otherwise exhaustive model checking. The heap is capped explicitly: TLC sizes its
    fingerprint set from the maximal heap and the JVM default (1/4 of RAM) times 16
    parallel validation processes exhausts the machine."""
    meta = tempfile.mkdtemp(prefix="tlcmeta_")
    e = dict(os.environ)
    if env:
        e.update(env)
    heap = heap or os.environ.get("VERIF_TLC_HEAP_TRACE" if dfs else "VERIF_TLC_HEAP_MC", "1200m" if dfs else "6g")
    # TLC creates a scratch directory under java.io.tmpdir on every start and leaves it behind: keep it
    # inside the run's own meta directory, which is removed below
    e["JAVA_TOOL_OPTIONS"] = f"-Xmx{heap} -Djava.io.tmpdir={meta}" + (" -Dtlc2.tool.queue.IStateQueue=StateDeque" if dfs else "")
    e.pop("_JAVA_OPTIONS", None)
    cmd = ["tlc", "-workers", str(workers), "-metadir", meta, "-config", cfg, module] + (extra or [])
    try:
        # own process group: a timeout must not leave the JVM behind
        p = subprocess.Popen(cmd, cwd=gen, env=e, stdout=subprocess.PIPE, stderr=subprocess.STDOUT, text=True,
                             start_new_session=True)
        t_end = time.time() + timeout
        while True:
            try:
                out, _ = p.communicate(timeout=2 if cancel is not None else timeout)
                rc = p.returncode
                break
            except subprocess.TimeoutExpired:
                cancelled = cancel is not None and cancel.is_set()
                if not cancelled and time.time() < t_end:
                    continue
                try:
                    os.killpg(p.pid, 9)
                except OSError:
                    pass
                out, _ = p.communicate()
                rc = -10 if cancelled else -9
                break
    finally:
        shutil.rmtree(meta, ignore_errors=True)
    return rc, out


def _validate_part(args):
    scen_name, part, idxs, timeout, cancel = args[:5]
    cfgp = args[5] if len(args) > 5 else "MCT"
    if cancel.is_set():
        return set(), "", {"rc": -10, "generated": 0, "distinct": 0, "violated": [], "cancelled": list(idxs)}
    tmpdir = tempfile.mkdtemp(prefix="vrt_tr_")
    path = os.path.join(tmpdir, f"traces_{scen_name}.json")
    pack(part, path)
    rc, out = run_tlc(f"{cfgp}_{scen_name}.cfg", f"MCT_{scen_name}.tla", {"VRT_TRACES": path}, 1, timeout, cancel=cancel)
    shutil.rmtree(tmpdir, ignore_errors=True)
    acc = set(idxs[int(m) - 1] for m in re.findall(r'<<"ACCEPT", (\d+)>>', out))
    st = {"rc": rc, "generated": 0, "distinct": 0}
    m = re.search(r"(\d+) states generated, (\d+) distinct states found", out)
    if m:
        st["generated"], st["distinct"] = int(m.group(1)), int(m.group(2))
    st["violated"] = re.findall(r"Invariant (\w+) is violated", out)
    if st["violated"]:
        mk = re.findall(r"/\\ tk = (\d+)", out)
        st["violated_trace"] = idxs[int(mk[-1]) - 1] if mk else idxs[0]
    if rc == -10:
        # stopped because another batch already produced a rejection/violation: the rest is unexamined
        st["cancelled"] = [j for j in idxs if j not in acc]
        st["violated"] = []
    elif ("Error:" in out and not st["violated"]) or rc == -9:
        st["error"] = out[out.find("Error:"):][:2000] if "Error:" in out else "timeout"
    elif st["violated"] or len(acc) < len(idxs):
        cancel.set()
    return acc, out, st


def validate(scen_name, traces, workers=16, timeout=900, tmpdir=None, cfg="MCT"):
    """Validate traces with `workers` single-worker depth-first TLC processes.
    returns (accepted_indices (1-based set), tlc_output_of_interest, stats)"""
    import concurrent.futures as cf
    n = len(traces)
    nproc = max(1, min(workers, (n + 3) // 4))
    parts = [[] for _ in range(nproc)]
    for i in range(n):
        parts[i % nproc].append(i + 1)
    import threading
    cancel = threading.Event()   # one rejected trace decides the run: the other batches are stopped
    jobs = [(scen_name, [traces[j - 1] for j in idxs], idxs, timeout, cancel, cfg) for idxs in parts if idxs]
    acc, outs = set(), []
    st = {"generated": 0, "distinct": 0, "violated": [], "rc": 0, "cancelled": []}
    with cf.ThreadPoolExecutor(max_workers=nproc) as ex:
        for a, out, s in ex.map(_validate_part, jobs):
            acc |= a
            st["generated"] += s["generated"]
            st["distinct"] += s["distinct"]
            st["cancelled"] += s.get("cancelled", [])
            for v in s["violated"]:
                st["violated"].append((v, s.get("violated_trace")))
                outs.append(out)
            if s.get("error"):
                st["error"] = s["error"]
                outs.append(out)
    return acc, "\n".join(outs), st


def diagnose(scen_name, trace, timeout=300):
    tmpdir = tempfile.mkdtemp(prefix="vrt_dg_")
    path = os.path.join(tmpdir, "one.json")
    pack([trace], path)
    rc, out = run_tlc(f"MCD_{scen_name}.cfg", f"MCT_{scen_name}.tla", {"VRT_TRACES": path}, 1, timeout)
    ats = [int(m) for m in re.findall(r'<<"AT", 1, (\d+)>>', out)]
    mx = max(ats) if ats else 0
    rc2, out2 = run_tlc(f"MCE_{scen_name}.cfg", f"MCT_{scen_name}.tla", {"VRT_TRACES": path, "VRT_MAXL": str(mx)}, 1,
                        timeout)
    shutil.rmtree(tmpdir, ignore_errors=True)
    # last state printed
    idx = out2.rfind("State ")
    last = out2[idx:] if idx >= 0 else out2[-3000:]
    return mx, last, out


if __name__ == "__main__":
    scen = sys.argv[1]
    trs = [load_ndjson(p) for p in sys.argv[2:]]
    acc, out, st = validate(scen, trs)
    print("accepted", sorted(acc), "of", len(trs), st)
    for i, t in enumerate(trs, 1):
        if i not in acc:
            mx, last, _ = diagnose(scen, t)
            print(f"--- trace {i} rejected at event {mx} of {len(t)}")
            for e in t[max(0, mx - 4):mx + 2]:
                print("   ", json.dumps(e))
            print(last[:6000])
            break
