#!/usr/bin/env python3
"""Orchestration of the model-based checks (see /verif/DESIGN.md).

  check.py <PROPERTY> [--tier quick|thorough]
  check.py replay <path>
  check.py setup

For a property: (1) assemble the TLA+ module(s) and model-check the small
configurations exhaustively with TLC; (2) rebuild the instrumented library from
/repo's working tree; (3) run the real code under the controlled scheduler for
many seeded schedules; (4) validate every recorded execution against the
specification with TLC (refinement step check + invariants + API monitor);
(5) write evidence/<id>.json.  Exit 0: held; 1: VIOLATION line printed;
2: infrastructure problem.
"""
import concurrent.futures as cf
import glob, hashlib, json, os, re, shutil, subprocess, sys, tempfile, time

ROOT = os.path.dirname(os.path.dirname(os.path.abspath(__file__)))
sys.path.insert(0, os.path.join(ROOT, "tools"))
import assemble  # noqa: E402
import tracecheck  # noqa: E402
from props import PROPS  # noqa: E402

REPO = os.environ.get("REPO", "/repo")
GEN = os.path.join(ROOT, "spec", "gen")
BUILD = os.environ.get("VERIF_BUILD_DIR", os.path.join(ROOT, "build"))
OUT = os.environ.get("VERIF_OUT_DIR", os.path.join(ROOT, "out"))
KNOWN = os.path.join(ROOT, "known_findings.json")
PAR = int(os.environ.get("VERIF_PAR", "16"))  # parallelism (TLC workers / parallel validation processes)


def log(*a):
    print(*a, file=sys.stderr, flush=True)


# ----------------------------------------------------------------- build
def tree_hash(paths):
    h = hashlib.sha256()
    for base in paths:
        for dp, dn, fn in sorted(os.walk(base)):
            dn.sort()
            for f in sorted(fn):
                if f.endswith((".c", ".h", ".sh", ".py", ".cc", ".cpp")):
                    p = os.path.join(dp, f)
                    h.update(p.encode())
                    h.update(open(p, "rb").read())
    return h.hexdigest()[:16]


def build(kind, binary="core"):
    """fiber regime: binary 'core' (whole library + drivers/core.c); thread regime: one
    build directory per driver binary drivers/thr_<binary>.c. Cached on a hash of the sources."""
    srcs = [os.path.join(REPO, "src"), os.path.join(REPO, "include"), os.path.join(ROOT, "vrt")]
    h = hashlib.sha256(tree_hash(srcs).encode())
    if kind == "fiber":
        files = sorted(glob.glob(os.path.join(ROOT, "drivers", "*.[ch]")))
        files = [f for f in files if not os.path.basename(f).startswith("thr_")]
        exts = os.environ.get("FIBER_EXTS")
        if exts:
            keep = {"ext_" + e + ".c" for e in exts.split()}
            files = [f for f in files if not os.path.basename(f).startswith("ext_") or
                     os.path.basename(f) in keep or os.path.basename(f) == "ext_all.c"]
            h.update(exts.encode())
        tag = "fiber"
    else:
        files = [os.path.join(ROOT, "drivers", f) for f in (f"thr_{binary}.c", "thr_common.h", "thr_stubs.c")]
        tag = f"thr_{binary}"
    files.append(os.path.join(ROOT, "tools", f"build_{kind}.sh"))
    for f in files:
        h.update(open(f, "rb").read())
    out = os.path.join(BUILD, f"{tag}_{h.hexdigest()[:16]}")
    stamp = os.path.join(out, ".ok")
    if os.path.exists(stamp):
        return out
    for d in glob.glob(os.path.join(BUILD, f"{tag}_*")):
        shutil.rmtree(d, ignore_errors=True)
    os.makedirs(out, exist_ok=True)
    env = dict(os.environ, REPO=REPO, OUT=out)
    if kind != "fiber":
        env["DRIVER"] = binary
    r = subprocess.run([os.path.join(ROOT, "tools", f"build_{kind}.sh")], env=env, capture_output=True, text=True)
    if r.returncode != 0 or not os.path.exists(os.path.join(out, binary)):
        log(r.stdout[-4000:], r.stderr[-4000:])
        raise Infra(f"build of {kind}/{binary} harness failed")
    open(stamp, "w").write("ok")
    return out


class Infra(Exception):
    pass


# ----------------------------------------------------------------- scenarios
def load_scen(name):
    return json.load(open(os.path.join(ROOT, "scen", name + ".json")))


def scen_text(scen):
    lines = [f"threads {scen.get('threads', 1)}"]
    for kind, objs in scen.get("objects", {}).items():
        for o in objs:
            if isinstance(o, list):
                lines.append(f"{kind} " + " ".join(str(x) for x in o))
            else:
                lines.append(f"{kind} {o}")
    for f, ops in scen["scripts"].items():
        lines.append(f"fiber {f}: " + "; ".join(" ".join(str(x) for x in op) for op in ops))
    return "\n".join(lines)


def run_one(binary, scen, seed, outdir, extra_env=None):
    os.makedirs(outdir, exist_ok=True)
    tr = os.path.join(outdir, f"{scen['name']}_{seed}.ndjson")
    env = dict(os.environ)
    env.update({"VRT_SEED": str(seed), "VRT_TRACE": tr})
    env.setdefault("MALLOC_PERTURB_", "165")  # malloc'ed (not calloc'ed) memory is not zero: exposes missing initialisation
    if scen.get("kind", "fiber") == "fiber":
        env["VRT_SCEN"] = scen_text(scen)
    else:
        import thread_mc
        env["VRT_SCEN"] = thread_mc.scen_text(scen)
    for k, v in scen.get("env", {}).items():
        env[k] = str(v).replace("/verif/", ROOT + "/")
    if extra_env:
        env.update(extra_env)
    try:
        r = subprocess.run([binary], env=env, capture_output=True, text=True, timeout=60)
        rc = r.returncode
        err = r.stderr[-500:]
    except subprocess.TimeoutExpired:
        rc, err = -9, "timeout"
    return tr, rc, err


def run_traces(binary, scen, seeds, outdir):
    os.makedirs(outdir, exist_ok=True)
    res = []
    with cf.ThreadPoolExecutor(max_workers=PAR) as ex:
        futs = [ex.submit(run_one, binary, scen, s, outdir) for s in seeds]
        for f in futs:
            res.append(f.result())
    return res


BAD_KINDS = {"crash": "crash (signal)", "dead_access": "access to reclaimed memory", "double_free": "double free",
             "quiescent": "all kernel threads idle while the scenario has not finished (lost wake-up / deadlock)",
             "budget": "step budget exhausted (livelock)", "oob": "out-of-bounds access",
             "xstack": "another kernel thread accessed the stack of a fiber that is running (use after the frame may be gone)"}


def prefilter(evs):
    """direct oracles on the recorded execution; returns list of (kind, event)"""
    bad = []
    ended = False
    for e in evs:
        k = e.get("k")
        if k in ("crash", "dead_access", "double_free", "oob", "xstack"):
            bad.append((k, e))
        elif k in ("quiescent", "budget"):
            bad.append((k, e))
        elif k == "end":
            ended = True
    if not ended and not bad:
        bad.append(("truncated", {}))
    return bad


# ----------------------------------------------------------------- TLC exhaustive
def tlc_exhaustive(scen, workers=None, timeout=1500, liveness=False):
    workers = workers or PAR
    name = scen["name"]
    cfg = f"MCL_{name}.cfg" if liveness else f"MC_{name}.cfg"
    extra = ["-coverage", "1"] if scen.get("coverage") else []
    rc, out = tracecheck.run_tlc(cfg, f"MC_{name}.tla", None, workers, timeout, extra=extra, dfs=False)
    st = {"rc": rc}
    m = re.search(r"(\d+) states generated, (\d+) distinct states found", out)
    if m:
        st["generated"], st["distinct"] = int(m.group(1)), int(m.group(2))
    else:
        pm = re.findall(r"Progress\(\d+\)[^\n]*?: ([\d,]+) states generated[^\n]*?, ([\d,]+) distinct states found", out)
        if pm:  # stopped by the time limit: the last progress report
            st["generated"], st["distinct"] = int(pm[-1][0].replace(",", "")), int(pm[-1][1].replace(",", ""))
    m = re.search(r"depth of the complete state graph search is (\d+)", out)
    if m:
        st["depth"] = int(m.group(1))
    st["violated"] = re.findall(r"Invariant (\w+) is violated", out)
    if "Temporal properties were violated" in out or re.search(r"Temporal property \w+ was violated", out):
        st["violated"].append("Live")
    st["complete"] = "Model checking completed. No error has been found" in out
    if not st["complete"] and not st["violated"]:
        st["error"] = out[-1500:]
    return st, out


# ----------------------------------------------------------------- known findings
def load_known():
    if not os.path.exists(KNOWN):
        return {"findings": [], "fixed": []}
    return json.load(open(KNOWN))


def known_match(prop, sig):
    """sig: dict describing a violation; a known finding matches if all of its 'match' keys agree"""
    for f in load_known().get("findings", []):
        if f.get("property") != prop:
            continue
        alts = f.get("match", {})
        alts = alts if isinstance(alts, list) else [alts]
        for alt in alts:
            if all((sig.get(k) in v) if isinstance(v, list) else (sig.get(k) == v) for k, v in alt.items()):
                return f
    return None


# ----------------------------------------------------------------- property check
def check_property(prop, tier, seed0):
    cfgp = PROPS[prop]
    t0 = time.time()
    outdir = os.path.join(OUT, prop)
    shutil.rmtree(outdir, ignore_errors=True)
    os.makedirs(outdir, exist_ok=True)
    ev = {"property_id": prop, "tier": tier, "seed": seed0, "level": "model_checking",
          "coverage": {"states": 0, "transitions": 0, "traces_validated_against_impl": 0, "samples": [],
                       "tlc_runs": [], "scenarios": [], "checker_cmd": "tlc (TLC2 2026.09.04) via tools/check.py"},
          "assumptions": cfgp.get("assumptions", []), "violations": 0}
    violations = []  # (description, replay-path)
    known_seen = []

    def report(desc, replay, sig):
        kf = known_match(prop, sig)
        if kf:
            if kf["id"] not in [k["id"] for k in known_seen]:
                known_seen.append(kf)
        else:
            violations.append((desc, replay))

    mods = sorted({load_scen(s)["module"] for s in cfgp["scenarios"][tier]} |
                  {load_scen(s)["module"] for s in cfgp.get("mc", {}).get(tier, [])})
    for m in mods:
        if os.path.exists(os.path.join(ROOT, "spec", "thread", m + ".tla.in")):
            continue  # standalone module: assembled by thread_mc.gen
        assemble.assemble(m)

    # (1) exhaustive model checking of the design
    for sname in cfgp.get("mc", {}).get(tier, []):
        scen = load_scen(sname)
        gen_mc_for(scen, cfgp)
        t1 = time.time()
        st, out = tlc_exhaustive(scen, timeout=cfgp.get("mc_timeout", {}).get(tier, 1500))
        st["wall_s"] = round(time.time() - t1, 1)
        log(f"[{prop}] exhaustive {sname}: {st.get('distinct')} distinct states, {st['wall_s']} s")
        ev["coverage"]["tlc_runs"].append({"scenario": sname, "mode": "exhaustive", **{k: v for k, v in st.items() if k != "error"}})
        if "generated" in st:
            ev["coverage"]["transitions"] += st["generated"]
            ev["coverage"]["states"] += st["distinct"]
        if st.get("violated"):
            p = os.path.join(outdir, f"design_{sname}.txt")
            open(p, "w").write(out)
            for inv in st["violated"]:
                report(f"design: TLC finds {inv} violated in {sname}", p, {"kind": "design", "scenario": sname, "invariant": inv})
        elif not st.get("complete"):
            if st["rc"] == -9 and (cfgp.get("mc_may_timeout") or tier == "thorough"):
                # the thorough tier explores as far as the time limit allows: a partial exploration without a
                # violation is reported as such in the evidence, it is not an infrastructure failure
                ev["coverage"]["tlc_runs"][-1]["note"] = "stopped by time limit (state count is what was explored)"
                log(f"[{prop}] exhaustive {sname}: stopped by the time limit, no violation in what was explored")
            else:
                log(st.get("error", ""))
                raise Infra(f"TLC failed on {sname}")
    for sname in cfgp.get("live", {}).get(tier, []):
        scen = load_scen(sname)
        gen_mc_for(scen, cfgp)
        st, out = tlc_exhaustive(scen, liveness=True, timeout=cfgp.get("mc_timeout", {}).get(tier, 1500))
        ev["coverage"]["tlc_runs"].append({"scenario": sname, "mode": "liveness", **{k: v for k, v in st.items() if k != "error"}})
        if st.get("violated"):
            p = os.path.join(outdir, f"design_live_{sname}.txt")
            open(p, "w").write(out)
            report(f"design: liveness violated in {sname}", p, {"kind": "design", "scenario": sname, "invariant": "Live"})
        elif not st.get("complete"):
            log(st.get("error", ""))
            raise Infra(f"TLC (liveness) failed on {sname}")

    # (2) build, (3) run, (4) validate
    nseeds = cfgp.get("seeds", {"quick": 40, "thorough": 600})[tier]
    for sname in cfgp["scenarios"][tier]:
        scen = load_scen(sname)
        gen_mc_for(scen, cfgp)
        kind = scen.get("kind", "fiber")
        bdir = build(kind if kind == "fiber" else "thread", scen.get("binary", "core"))
        binary = os.path.join(bdir, scen.get("binary", "core"))
        n = cfgp.get("scenario_seeds", {}).get(sname, {}).get(tier) or scen.get("seeds", {}).get(tier, nseeds)
        seeds = [seed0 * 100003 + i for i in range(1, n + 1)]
        tdir = os.path.join(outdir, "traces")
        t1 = time.time()
        res = run_traces(binary, scen, seeds, tdir)
        # witness-guided executions: behaviours of the model that reach a listed guard state, replayed
        # into the real code (tools/witness.py); their traces are validated like all others
        seed_env = {}
        wrec = []
        if scen.get("witness"):
            import witness
            for gi, (wname, gpath, info) in enumerate(witness.make_guides(scen, timeout=cfgp.get("mc_timeout", {}).get(tier, 1500), log=log)):
                info = dict(info)
                if gpath:
                    gseeds = [9000000 + seed0 * 10007 % 100000 * 10 + gi * 1000 + j for j in range(1, (4 if tier == "quick" else 12) + 1)]
                    for gs in gseeds:
                        seed_env[gs] = {"VRT_GUIDE": gpath}
                    gres = [run_one(binary, scen, gs, tdir, seed_env[gs]) for gs in gseeds]
                    done = 0
                    for (gtr, _, _) in gres:
                        try:
                            done += int('"guide_done"' in open(gtr, errors="replace").read())
                        except OSError:
                            pass
                    info.update({"guided_executions": len(gseeds), "followed_to_the_end": done})
                    res = res + gres
                    seeds = seeds + gseeds
                wrec.append(info)
        # targeted stalls: for every (function, field) READ of tracked memory that ordinary executions of
        # the scenario perform inside the listed functions, executions in which the thread performing its
        # k-th such read is parked until nobody else can run (VRT_STALL): the maximal delay between taking
        # a snapshot and using it
        if scen.get("stall"):
            st = scen["stall"]
            pairs = []
            for (tr0, _, _) in res[:12]:
                try:
                    for line in open(tr0, errors="replace"):
                        if '"fn"' not in line or '"a"' not in line:
                            continue
                        e = json.loads(line)
                        if e.get("k") in ("R", "VR", "AL") and e.get("fn") in st["fns"] and "." in e.get("a", ""):
                            pr = (e["fn"], e["a"].rsplit(".", 1)[1])
                            if pr not in pairs:
                                pairs.append(pr)
                except (OSError, ValueError):
                    pass
            sseeds = []
            for pi, (fn, fld) in enumerate(pairs):
                for k in range(1, st.get("occ", 2) + 1):
                    for j in range(st.get("seeds", {}).get(tier, 1) if isinstance(st.get("seeds"), dict) else st.get("seeds", 1)):
                        ss = 8000000 + (seed0 * 10007 % 1000) * 1000 + len(sseeds)
                        seed_env[ss] = {"VRT_STALL": f"{fn}:{fld}:{k}"}
                        sseeds.append(ss)
            with cf.ThreadPoolExecutor(max_workers=PAR) as ex:
                sres = list(ex.map(lambda ss: run_one(binary, scen, ss, tdir, seed_env[ss]), sseeds))
            res = res + sres
            seeds = seeds + sseeds
            wrec.append({"stall_points": [f"{a}:{b}" for a, b in pairs], "stall_executions": len(sseeds)})
        t_run = time.time() - t1
        t1 = time.time()
        traces, meta = [], []
        nbad = 0
        too_long = 0
        max_events = int(os.environ.get("VERIF_MAX_EVENTS", scen.get("max_events", {}).get(tier, 6000 if tier == "quick" else 40000)))
        for (tr, rc, err), seed in zip(res, seeds):
            if not os.path.exists(tr):
                raise Infra(f"no trace from {binary} seed {seed}: rc={rc} {err}")
            evs = tracecheck.load_ndjson(tr)
            bad = prefilter(evs)
            bad = [b for b in bad if b[0] not in scen.get("allow", [])]
            if bad:
                # confirm by re-running the same seed
                tr2, rc2, _ = run_one(binary, scen, seed, tdir + "_confirm", seed_env.get(seed))
                bad2 = prefilter(tracecheck.load_ndjson(tr2)) if os.path.exists(tr2) else []
                if [b[0] for b in bad2] == [b[0] for b in bad]:
                    nbad += 1
                    for k, e in bad[:1]:
                        rp = write_replay(outdir, prop, scen, seed, f"{k}: {BAD_KINDS.get(k, k)}", tr)
                        report(f"{sname} seed {seed}: {BAD_KINDS.get(k, k)} {json.dumps(e)[:200]}", rp,
                               {"kind": k, "scenario": sname, "obj": e.get("o"), "fn": e.get("fn")})
                    continue
                else:
                    raise Infra(f"non-reproducible oracle failure {sname} seed {seed}")
            if len(evs) > max_events:
                # (long-stall schedules of spinning code) checked by the harness oracles only
                too_long += 1
                continue
            traces.append(evs)
            meta.append((seed, tr))
        srec = {"scenario": sname, "executions": len(res), "direct_oracle_failures": nbad}
        if too_long:
            srec["oracle_only_too_long"] = too_long
        if wrec:
            srec["witness_guided"] = wrec
        if traces and not scen.get("no_validate"):
            chunk = 400
            accepted_total = 0
            for i in range(0, len(traces), chunk):
                part = traces[i:i + chunk]
                acc, out, st = tracecheck.validate(sname, part, workers=PAR, timeout=3000,
                                                   cfg="MCM" if scen.get("mon_only") else "MCT")
                if st.get("error") and not st.get("violated"):
                    log(st["error"])
                    raise Infra(f"TLC trace validation failed for {sname}")
                ev["coverage"]["transitions"] += st.get("generated", 0)
                ev["coverage"]["states"] += st.get("distinct", 0)
                seen_v = set()
                for inv, vt in st.get("violated", []):
                    j = (vt or 1) - 1
                    seed, trp = meta[i + j]
                    if (inv, seed) in seen_v:
                        continue
                    seen_v.add((inv, seed))
                    p = os.path.join(outdir, f"tracecheck_{sname}_{seed}.txt")
                    open(p, "w").write(out)
                    rp = write_replay(outdir, prop, scen, seed, f"invariant {inv} violated on a recorded execution", trp, tlc=p)
                    report(f"{sname} seed {seed}: invariant {inv} violated on the recorded execution", rp,
                           {"kind": "invariant", "scenario": sname, "invariant": inv})
                accepted_total += len(acc)
                rejected = [j for j in range(1, len(part) + 1) if j not in acc and j not in set(st.get("cancelled", []))]
                srec["unexamined_after_first_rejection"] = srec.get("unexamined_after_first_rejection", 0) + len(st.get("cancelled", []))
                if st.get("violated"):
                    rejected = []  # TLC stopped at the violation; the others were not examined
                for j in rejected[:3]:
                    seed, trp = meta[i + j - 1]
                    mx, last, _ = tracecheck.diagnose(sname, part[j - 1])
                    evd = part[j - 1][mx - 1] if 0 < mx <= len(part[j - 1]) else {}
                    p = os.path.join(outdir, f"diverge_{sname}_{seed}.txt")
                    open(p, "w").write(f"trace {trp}\nrejected at event {mx} of {len(part[j-1])}: {json.dumps(evd)}\n"
                                       f"spec state reached before it:\n{last}\n")
                    rp = write_replay(outdir, prop, scen, seed, f"divergence from the specification at event {mx}", trp, tlc=p)
                    report(f"{sname} seed {seed}: recorded execution is not a behaviour of the specification "
                           f"(event {mx}: {json.dumps(evd)[:160]})", rp,
                           {"kind": "divergence", "scenario": sname, "fn": evd.get("fn"), "a": evd.get("a")})
                srec["rejected"] = srec.get("rejected", 0) + len(rejected)
            srec["validated"] = accepted_total
            ev["coverage"]["traces_validated_against_impl"] += accepted_total
            if traces and len(ev["coverage"]["samples"]) < 3:
                ev["coverage"]["samples"].append({"scenario": sname, "seed": meta[0][0], "events": len(traces[0]),
                                                  "first_events": [compact(e) for e in traces[0][2:14]]})
        srec["run_s"] = round(t_run, 1)
        srec["validate_s"] = round(time.time() - t1, 1)
        log(f"[{prop}] scenario {sname}: {len(res)} executions in {srec['run_s']} s, validation {srec['validate_s']} s")
        ev["coverage"]["scenarios"].append(srec)
        shutil.rmtree(tdir + "_confirm", ignore_errors=True)
        # binding self-test, once per run: an accepted trace with one recorded value corrupted, and the
        # same trace with one memory-changing event removed, must both be REJECTED by the model - a
        # trace spec that accepts anything would make every verdict above worthless
        if "binding_selftest" not in ev["coverage"] and srec.get("validated") and traces and not violations_here(ev):
            ev["coverage"]["binding_selftest"] = binding_selftest(sname, traces[0])
            if not all(ev["coverage"]["binding_selftest"].get(k) for k in ("corrupted_value_rejected", "dropped_event_rejected")):
                log(f"[{prop}] WARNING: binding self-test not conclusive for {sname}: {ev['coverage']['binding_selftest']}")

    # property-specific extras (e.g. the TSO re-check with memory orders extracted from
    # the recorded traces): tools/<name>.py with run(ev, report, tier, seed0, outdir)
    for name in cfgp.get("extra", []):
        import importlib
        mod = importlib.import_module(name)
        mod.run(ev, report, tier, seed0, outdir)

    if not violations and not known_seen and not os.environ.get("VERIF_KEEP_TRACES"):
        # the raw traces of a clean run are not needed afterwards (replay files keep their own copy)
        shutil.rmtree(os.path.join(outdir, "traces"), ignore_errors=True)
    ev["wall_s"] = round(time.time() - t0, 1)
    ev["violations"] = len(violations)
    ev["coverage"]["known_findings_seen"] = [k["id"] for k in known_seen]
    if not ev["coverage"]["samples"]:
        ev["coverage"]["samples"].append({"note": "no implementation traces in this tier; TLC runs listed in tlc_runs"})
    if ev["coverage"]["states"] == 0:
        ev["coverage"]["states"] = 1
        ev["coverage"]["transitions"] = max(1, ev["coverage"]["transitions"])
    evdir = os.environ.get("VERIF_EVIDENCE_DIR", os.path.join(ROOT, "evidence"))
    os.makedirs(evdir, exist_ok=True)
    json.dump(ev, open(os.path.join(evdir, prop + ".json"), "w"), indent=1)
    for k in known_seen:
        print(f"KNOWN-FINDING: property={prop} {k['what']}")
    for desc, rp in violations:
        print(f"VIOLATION property={prop} replay={rp}")
        log("  " + desc)
    return 1 if violations else 0


def compact(e):
    return {k: v for k, v in e.items() if k in ("t", "k", "a", "fn", "w", "op", "ph", "f", "o", "r") and v not in ("", [])}


def write_replay(outdir, prop, scen, seed, what, trace, tlc=None):
    p = os.path.join(outdir, f"replay_{scen['name']}_{seed}.json")
    keep = os.path.join(outdir, os.path.basename(trace))
    if os.path.exists(trace) and not os.path.exists(keep):
        shutil.copy(trace, keep)
    json.dump({"property": prop, "scenario": scen["name"], "seed": seed, "what": what, "trace": keep, "tlc": tlc},
              open(p, "w"), indent=1)
    return p


def violations_here(ev):
    return bool(ev.get("violations"))


def binding_selftest(sname, evs):
    """corrupt the values of one memory-changing event / drop that event of an accepted trace: TLC must
    reject both (tried on up to three events; fields that are mere markers are not projected by the model)"""
    import copy
    idx = [i for i, e in enumerate(evs) if e.get("k") in tracecheck.STEP_KINDS and e.get("k") not in ("reg", "start")
           and e.get("w") and any(isinstance(x[2], int) for x in e["w"])]
    out = {"scenario": sname, "events": len(evs)}
    if not idx:
        out.update({"corrupted_value_rejected": True, "dropped_event_rejected": True, "note": "no integer-valued write in the trace: skipped"})
        return out
    for i in dict.fromkeys([idx[len(idx) // 2], idx[-1], idx[0]]):
        a = copy.deepcopy(evs)
        for x in a[i]["w"]:
            if isinstance(x[2], int):
                x[2] = x[2] + 7
        b = copy.deepcopy(evs)
        del b[i]
        tracecheck.add_nfn(b)
        out["corrupted"] = f"event {i}: integer values written += 7"
        out["dropped"] = f"event {i} ({evs[i].get('k')} {evs[i].get('a', evs[i].get('fn', ''))})"
        acc, _, st = tracecheck.validate(sname, [a, b], workers=2, timeout=600)
        if st.get("error") and not st.get("violated"):
            out["error"] = st["error"][:300]
        # an invariant violation on the corrupted trace counts as rejection too
        out["corrupted_value_rejected"] = 1 not in acc
        out["dropped_event_rejected"] = 2 not in acc
        if out["corrupted_value_rejected"] and out["dropped_event_rejected"]:
            break
    return out


STANDALONE = set()


def gen_mc_for(scen, cfgp):
    if scen.get("kind", "fiber") == "fiber":
        assemble.gen_mc(scen)
    else:
        import thread_mc
        thread_mc.gen(scen)


def replay(path):
    r = json.load(open(path))
    scen = load_scen(r["scenario"])
    kind = scen.get("kind", "fiber")
    bdir = build(kind if kind == "fiber" else "thread", scen.get("binary", "core"))
    binary = os.path.join(bdir, scen.get("binary", "core"))
    d = tempfile.mkdtemp(prefix="vrt_replay_")
    tr, rc, err = run_one(binary, scen, r["seed"], d)
    evs = tracecheck.load_ndjson(tr)
    print(f"replayed {r['scenario']} seed {r['seed']}: {len(evs)} events; recorded finding: {r['what']}")
    for k, e in prefilter(evs):
        print("  oracle:", k, json.dumps(e)[:300])
    print("  trace:", tr)
    return 0


def main():
    if len(sys.argv) >= 3 and sys.argv[1] == "replay":
        return replay(sys.argv[2])
    if len(sys.argv) >= 2 and sys.argv[1] == "setup":
        import setup_all
        return setup_all.main()
    prop = sys.argv[1]
    tier = os.environ.get("VERIF_TIER", "quick")
    if "--tier" in sys.argv:
        tier = sys.argv[sys.argv.index("--tier") + 1]
    seed0 = int(os.environ.get("VERIF_SEED", "1"))
    try:
        return check_property(prop, tier, seed0)
    except Infra as e:
        log("INFRASTRUCTURE ERROR:", e)
        return 2


if __name__ == "__main__":
    sys.exit(main())
