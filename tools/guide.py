#!/usr/bin/env python3
"""Turn a TLC counterexample (-dumpTrace json) of a fiber-regime module into a
schedule guide for the controlled scheduler: one directive per spec step that
changes projected memory: `t<k>` (kernel thread whose fiber stepped) or `env`.
The harness (VRT_GUIDE) runs the named thread until one of its steps changes
tracked memory, then moves to the next directive; a silent spec step whose label is
listed in the module's ACCESS map (a read of shared memory) becomes `t<k>@<fn>:<field>`:
run the thread until it has performed that read; when the guide is exhausted
(or infeasible) it continues with its seeded policy.

  guide.py <counterexample.json> <out.guide>
"""
import json, sys

# spec variables whose change is visible in the projection
PROJECTED = ["fstate", "mgr", "dq", "sfrom", "cur", "mtxc", "wq", "joininfo", "detach", "result", "freed", "scratch",
             "created", "tcount", "sll", "sleepers", "bctr", "semc", "mq", "rws"]


def convert(cex_path, out_path, access=None):
    access = access or {}
    d = json.load(open(cex_path))
    states = [s[1] for s in d["counterexample"]["state"]]
    out = []
    for a, b in zip(states, states[1:]):
        moved = [f for f in b["pc"] if b["pc"][f] != a["pc"].get(f) or b["stack"].get(f) != a["stack"].get(f)]
        visible = any(a.get(v) != b.get(v) for v in PROJECTED if v in a and v not in ("mgr", "created", "cur"))
        if a.get("ticksGen") != b.get("ticksGen"):
            out.append("env")
            continue
        if not moved:
            continue
        f = moved[0]
        t = [k for k, v in a["cur"].items() if v == f]
        if not t:
            continue
        if visible:
            out.append("t" + str(t[0]))
        elif a["pc"].get(f) in access:
            fn, fld = access[a["pc"][f]]
            out.append(f"t{t[0]}@{fn}:{fld}")
    # collapse nothing: each directive = one memory-changing step
    open(out_path, "w").write("\n".join(out) + "\n")
    return len(states), len(out)


if __name__ == "__main__":
    n, m = convert(sys.argv[1], sys.argv[2])
    print(f"{n} states -> {m} directives")
