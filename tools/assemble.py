#!/usr/bin/env python3
"""Assemble spec/gen/<Module>.tla and Trace<Module>.tla from the core template
and a module fragment (spec/mod/<Module>.mod), translate the PlusCal, and
generate per-scenario model-checking modules/configs.

Fragment format: sections introduced by lines `#! NAME`; NAME is one of the
@@NAME@@ placeholders of the templates.
"""
import json, os, re, subprocess, sys

ROOT = os.path.dirname(os.path.dirname(os.path.abspath(__file__)))
SPEC = os.path.join(ROOT, "spec")
GEN = os.environ.get("VERIF_GEN_DIR", os.path.join(SPEC, "gen"))

DEFAULTS = {
    "CONSTANTS": "", "VARIABLES": "", "DEFINES": "", "PROCEDURES": "", "OPS": "",
    "MAINT_MPMC": "", "MAINT_SPIN": "", "IDLE": "         skip;", "MEMCASES": "",
    "FIBERFIELDS": "", "MGRFIELDS": "", "MODELED": "", "POST": "",
    "SKIPKINDS": "", "TRACEACTIONS": "", "TRACENEXT": "", "FNPROC": "", "CALLLABELS": "", "PINNED": "", "ACCESS": "",
    "GROUPOF": "", "GROUPVAL": "", "FAITHFUL": "", "UNFAITHFUL": "", "MONFIELDS": "", "MONCASES": "", "PROCESSES": "", "MCENV": "",
}


def read_fragment(path):
    """A fragment may start with lines `#! INCLUDE <Other>`: the sections of
    spec/mod/<Other>.mod are merged in first and the fragment's own sections are
    APPENDED to them (e.g. Channel.mod builds on the Signal procedures)."""
    sec = dict(DEFAULTS)
    cur = None
    if not os.path.exists(path):
        return sec
    filled = set()  # sections that already have content (from an include or from this fragment)
    for line in open(path):
        m = re.match(r"^#!\s*INCLUDE\s+(\w+)\s*$", line)
        if m:
            inc = read_fragment(os.path.join(os.path.dirname(path), m.group(1) + ".mod"))
            for k, v in inc.items():
                if v != DEFAULTS[k]:
                    sec[k] = v if k not in filled else sec[k] + v
                    filled.add(k)
            cur = None
            continue
        m = re.match(r"^#!\s*(\w+)\s*$", line)
        if m:
            cur = m.group(1)
            if cur not in sec:
                raise SystemExit(f"{path}: unknown section {cur}")
            if cur not in filled:
                sec[cur] = ""
                filled.add(cur)
            continue
        if cur:
            sec[cur] += line
    return sec


def fill(tmpl, sec, name):
    out = tmpl.replace("@@NAME@@", name)
    sec = dict(sec)
    # fragments written before the per-event step counter `tn` existed
    sec["TRACEACTIONS"] = sec.get("TRACEACTIONS", "").replace("UNCHANGED <<tk, xm>>", "UNCHANGED <<tk, xm, tn>>")
    # sections that are spliced into a one-line set/record: keep them on that line (a continuation
    # line left of an enclosing /\ or \/ bullet would end the junction list)
    for k in ("FIBERFIELDS", "MGRFIELDS", "FAITHFUL", "UNFAITHFUL", "SKIPKINDS"):
        sec[k] = " ".join(x.strip() for x in sec.get(k, "").splitlines() if x.strip())
    for k, v in sec.items():
        out = out.replace("@@" + k + "@@", v.rstrip("\n") if k not in ("VARIABLES",) else v.rstrip("\n"))
    return out


def dedupe_fnproc(src):
    """several fragments may pin the same C function: keep the union of the procedure sets"""
    m = re.search(r"FnProc == \[(.*?)\]\nLabelProc", src, re.S)
    if not m:
        return src
    entries = re.findall(r"(\w+)\s*\|->\s*\{([^}]*)\}", m.group(1))
    merged = {}
    for k, v in entries:
        vals = [x.strip() for x in v.split(",") if x.strip()]
        merged.setdefault(k, [])
        for x in vals:
            if x not in merged[k]:
                merged[k].append(x)
    body = ",\n           ".join(f"{k} |-> {{{', '.join(v)}}}" for k, v in merged.items())
    return src[:m.start(1)] + body + src[m.end(1):]


def fill_label_proc(path):
    """LabelProc from the TRANSLATION (pcal renames duplicate labels, e.g. br0 -> br0_)"""
    txt = open(path).read()
    tr = txt[txt.index("BEGIN TRANSLATION"):txt.index("END TRANSLATION")]
    pairs = []
    for m in re.finditer(r"^(\w+)(\(self\))? == ((?:\w+(?:\(self\))?(?:\s*\\/\s*)?)+)$", tr, re.M):
        proc, rhs = m.group(1), m.group(3)
        if proc in ("Next", "Spec", "Init", "vars", "ProcSet", "Termination"):
            continue
        labels = re.findall(r"(\w+)(?:\(self\))?", rhs)
        for lb in labels:
            pairs.append((lb, proc))
    pairs.append(("Error", "none"))
    pairs.append(("Done", "none"))
    seen = set()
    uniq = []
    for lb, pr in pairs:
        if lb not in seen:
            seen.add(lb)
            uniq.append((lb, pr))
    m = "[lb \\in {" + ", ".join(f'"{l}"' for l, _ in uniq) + "} |-> CASE " + \
        " [] ".join(f'lb = "{l}" -> "{p}"' for l, p in uniq) + "]"
    open(path, "w").write(txt.replace("LABELPROC_PLACEHOLDER", m))


def label_proc_map(src):
    """map every PlusCal label to the procedure/process that contains it"""
    alg = src[src.index("--algorithm"):src.index("BEGIN TRANSLATION")]
    cur = None
    pairs = []
    for line in alg.splitlines():
        m = re.match(r"^\s*procedure\s+(\w+)\s*\(", line)
        if m:
            cur = m.group(1)
        m = re.match(r"^\s*(?:fair\s+)?process\s*\(\s*(\w+)", line)
        if m:
            cur = m.group(1)
        m = re.match(r"^\s*(\w+):(?!=)", line)
        if m and cur:
            pairs.append((m.group(1), cur))
    pairs.append(("Error", "none"))
    pairs.append(("Done", "none"))
    return "[lb \\in {" + ", ".join(f'"{l}"' for l, _ in pairs) + "} |-> CASE " + \
        " [] ".join(f'lb = "{l}" -> "{p}"' for l, p in pairs) + "]"


def assemble(name, template="FiberCore.tmpl"):
    os.makedirs(GEN, exist_ok=True)
    sec = read_fragment(os.path.join(SPEC, "mod", name + ".mod"))
    tmpl = open(os.path.join(SPEC, "core", template)).read()
    src = fill(tmpl, sec, name)
    procs = re.findall(r"^\s*procedure\s+(\w+)\s*\(", src, re.M)
    steps = " \\/ ".join(f"{p}(self)" for p in procs)
    steps += " \\/ (self \\in ScriptFibers /\\ fib(self)) \\/ (self \\in MaintFibers /\\ mf(self))"
    src = src.replace("@@STEPS@@", steps)
    src = dedupe_fnproc(src)
    src = src.replace("@@LABELPROC@@", "LABELPROC_PLACEHOLDER")
    left = re.findall(r"@@\w+@@", src)
    if left:
        raise SystemExit(f"unfilled placeholders: {left}")
    path = os.path.join(GEN, name + ".tla")
    old = open(path).read() if os.path.exists(path) else None
    # keep previous translation if the source part is unchanged
    with open(path, "w") as f:
        f.write(src)
    r = subprocess.run(["pcal", "-nocfg", name + ".tla"], cwd=GEN, capture_output=True, text=True)
    if r.returncode != 0 or "error" in r.stdout.lower():
        print(r.stdout[-3000:], r.stderr[-2000:])
        raise SystemExit(f"pcal failed for {name}")
    for junk in (name + ".old",):
        try:
            os.remove(os.path.join(GEN, junk))
        except OSError:
            pass
    fill_label_proc(path)
    ttmpl = open(os.path.join(SPEC, "core", "Trace.tmpl")).read()
    tsrc = fill(ttmpl, sec, name)
    left = re.findall(r"@@\w+@@", tsrc)
    if left:
        raise SystemExit(f"unfilled placeholders in trace spec: {left}")
    with open(os.path.join(GEN, "Trace" + name + ".tla"), "w") as f:
        f.write(tsrc)
    # label -> (C function, field) of the shared-memory READ a silent label performs: lets a model
    # behaviour be replayed into the real code with its reads in place (tools/witness.py, VRT_GUIDE)
    acc = {}
    core_acc = os.path.join(SPEC, "core", "FiberCore.access")
    lines = (open(core_acc).read() if os.path.exists(core_acc) else "") + "\n" + sec.get("ACCESS", "")
    for line in lines.splitlines():
        w = line.split("#")[0].split()
        if len(w) == 3:
            acc[w[0]] = [w[1], w[2]]
    json.dump(acc, open(os.path.join(GEN, name + ".access.json"), "w"), indent=0)
    return path


def assemble_thread(name):
    """standalone (thread-regime) module: spec/thread/<name>.tla.in"""
    os.makedirs(GEN, exist_ok=True)
    src = open(os.path.join(SPEC, "thread", name + ".tla.in")).read()
    for inc in re.findall(r"@@INC:(\w+)@@", src):
        src = src.replace(f"@@INC:{inc}@@", open(os.path.join(SPEC, "thread", inc + ".inc")).read())
    if "@@QUEUEMON@@" in src:
        src = src.replace("@@QUEUEMON@@", open(os.path.join(SPEC, "thread", "QueueMon.inc")).read())
    src = src.replace("@@LABELPROC@@", "LABELPROC_PLACEHOLDER")
    with open(os.path.join(GEN, name + ".tla"), "w") as f:
        f.write(src)
    r = subprocess.run(["pcal", "-nocfg", name + ".tla"], cwd=GEN, capture_output=True, text=True)
    if r.returncode != 0 or "error" in r.stdout.lower():
        print(r.stdout[-3000:], r.stderr[-2000:])
        raise SystemExit(f"pcal failed for {name}")
    try:
        os.remove(os.path.join(GEN, name + ".old"))
    except OSError:
        pass
    fill_label_proc(os.path.join(GEN, name + ".tla"))
    ttmpl = open(os.path.join(SPEC, "core", "Trace.tmpl")).read()
    tsrc = fill(ttmpl, dict(DEFAULTS), name)
    if not re.search(r"^CallLabels ==", open(os.path.join(GEN, name + ".tla")).read(), re.M):
        # thread-regime modules pin no calls
        tsrc = tsrc.replace("MaxStepsPerEvent == 64", 'MaxStepsPerEvent == 64\nCallLabels == [nocall |-> {}]\nPinnedLabels == {}')
    with open(os.path.join(GEN, "Trace" + name + ".tla"), "w") as f:
        f.write(tsrc)


def tla_val(v):
    if isinstance(v, bool):
        return "TRUE" if v else "FALSE"
    if isinstance(v, int):
        return str(v)
    if isinstance(v, str):
        return '"' + v + '"'
    if isinstance(v, list):
        return "<<" + ", ".join(tla_val(x) for x in v) + ">>"
    if isinstance(v, dict):
        if not v:
            return "<<>>"
        return "(" + " @@ ".join(f"{tla_val(k)} :> {tla_val(x)}" for k, x in v.items()) + ")"
    raise ValueError(v)


def tla_set(xs):
    return "{" + ", ".join(tla_val(x) for x in xs) + "}"


def gen_mc(scen, outdir=GEN):
    """scen: dict (see scen/*.json). Writes MC_<name>.tla, MC_<name>.cfg, MCT_<name>.cfg"""
    name = scen["name"]
    mod = scen["module"]
    nthreads = scen.get("threads", 1)
    scripts = scen["scripts"]
    user = [f for f in scripts if f != "thr0"]
    objs = scen.get("objects", {})
    # "model_mutexes": mutexes that live inside other objects (created and registered by a driver extension)
    mutexes = objs.get("mutex", []) + scen.get("model_mutexes", [])
    def names(kind):
        return [o[0] if isinstance(o, list) else o for o in objs.get(kind, [])]
    mpscqs = list(mutexes) + names("mpscq") + [b + "_" + str(i) for b in names("barrier") for i in (0, 1)] + names("cond") + scen.get("mpscqs", [])
    lines = ["@@HEAD@@", ""]
    lines.append(f"cThreads == 0..{nthreads - 1}")
    lines.append(f"cUser == {tla_set(user)}")
    allf = "cUser \\cup {\"thr\" \\o ToString(t) : t \\in cThreads} \\cup {\"mf0\"}"
    sc = " @@ ".join(f"{tla_val(f)} :> {tla_val(ops)}" for f, ops in scripts.items())
    lines.append(f"cScript == ({sc}) @@ [f \\in {allf} |-> <<>>]")
    lines.append(f"cMutexes == {tla_set(mutexes)}")
    lines.append(f"cMpscQs == {tla_set(mpscqs)}")
    if "barrier" in objs or mod == "Barrier":
        lines.append(f"cBarriers == {tla_set(names('barrier'))}")
        lines.append("cBCount == " + tla_val({o[0]: o[1] for o in objs.get("barrier", [])}))
        cl_extra = [" Barriers <- cBarriers", " BCount <- cBCount"]
    else:
        cl_extra = []
    consts = {"PushToStoreTo": True, "StealOn": True, "BypassCap": 64, "RefetchAfterUnlock": True, "YieldBalance": False, "MaintSpins": True}
    consts.update(scen.get("consts", {}))
    extra = scen.get("tla_consts", {})  # name -> TLA expression text
    for k, v in extra.items():
        lines.append(f"c{k} == {v}")
    for w in scen.get("witness", []):
        lines.append(f"NotW_{w} == ~({w})")
    lines.append("====")
    body = "\n".join(lines) + "\n"
    with open(os.path.join(outdir, f"MC_{name}.tla"), "w") as f:
        f.write(body.replace("@@HEAD@@", f"---- MODULE MC_{name} ----\nEXTENDS {mod}"))
    with open(os.path.join(outdir, f"MCT_{name}.tla"), "w") as f:
        f.write(body.replace("@@HEAD@@", f"---- MODULE MCT_{name} ----\nEXTENDS Trace{mod}"))
    cl = ["CONSTANTS", " Threads <- cThreads", " UserFibers <- cUser", " Script <- cScript",
          " Mutexes <- cMutexes", " MpscQs <- cMpscQs", ' defaultInitValue = defaultInitValue'] + cl_extra
    clt = list(cl)   # trace validation: always with the occasional load balancing of fiber_manager_yield
    for k, v in consts.items():
        cl.append(f" {k} = {tla_val(v)}")
        clt.append(f" {k} = {tla_val(True if k == 'YieldBalance' else v)}")
    for k in extra:
        cl.append(f" {k} <- c{k}")
        clt.append(f" {k} <- c{k}")
    invs = scen.get("invariants", ["OneThreadPerFiber", "SwitchOnlyToSaved", "MutexExclusion", "QueuedOnce",
                                   "NoDeadRun", "NoDeadQueued", "PendingWakeBound", "QuiescentImpliesDone"])
    mc = ["SPECIFICATION MCSpec"] + cl + ["INVARIANTS"] + [" " + i for i in invs] + ["CHECK_DEADLOCK FALSE"]
    if scen.get("constraint"):
        mc += ["CONSTRAINT " + scen["constraint"]]
    with open(os.path.join(outdir, f"MC_{name}.cfg"), "w") as f:
        f.write("\n".join(mc) + "\n")
    for w in scen.get("witness", []):
        # reachability witness: TLC's counterexample to "never W" is a behaviour that reaches W
        wc = ["SPECIFICATION MCSpec"] + cl + ["INVARIANTS", f" NotW_{w}", "CHECK_DEADLOCK FALSE"]
        with open(os.path.join(outdir, f"MCW_{name}_{w}.cfg"), "w") as f:
            f.write("\n".join(wc) + "\n")
    live = ["SPECIFICATION MCFair"] + cl + ["PROPERTY Live", "CHECK_DEADLOCK FALSE"]
    with open(os.path.join(outdir, f"MCL_{name}.cfg"), "w") as f:
        f.write("\n".join(live) + "\n")
    tinv = scen.get("trace_invariants", invs)
    tr = ["SPECIFICATION TSpec"] + clt + ["INVARIANTS", " Accepted", " MonOK"] + [" " + i for i in tinv] + ["CONSTRAINT NotYetAccepted", "CHECK_DEADLOCK FALSE"]
    with open(os.path.join(outdir, f"MCT_{name}.cfg"), "w") as f:
        f.write("\n".join(tr) + "\n")
    mo = ["SPECIFICATION TMonSpec"] + clt + ["INVARIANTS", " Accepted", " MonOK", "CONSTRAINT NotYetAccepted", "CHECK_DEADLOCK FALSE"]
    with open(os.path.join(outdir, f"MCM_{name}.cfg"), "w") as f:
        f.write("\n".join(mo) + "\n")
    dg = ["SPECIFICATION TSpec"] + clt + ["CONSTRAINT DiagAt", "CHECK_DEADLOCK FALSE"]
    with open(os.path.join(outdir, f"MCD_{name}.cfg"), "w") as f:
        f.write("\n".join(dg) + "\n")
    dg2 = ["SPECIFICATION TSpec"] + clt + ["INVARIANT DiagStop", "CHECK_DEADLOCK FALSE"]
    with open(os.path.join(outdir, f"MCE_{name}.cfg"), "w") as f:
        f.write("\n".join(dg2) + "\n")
    return name


if __name__ == "__main__":
    if len(sys.argv) < 2:
        raise SystemExit("usage: assemble.py <Module> [scenario.json ...]")
    assemble(sys.argv[1])
    for s in sys.argv[2:]:
        gen_mc(json.load(open(s)))
    print("ok")
