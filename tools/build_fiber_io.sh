#!/bin/bash
# C08 variant of tools/build_fiber.sh: src/fiber_io.c and vrt/wrap_event.c are replaced by the logging
# wrappers vrt/wrap_io.c and vrt/wrap_event_io.c (white-box registration of fd_wait_info, "sys" records)
set -e
REPO=${REPO:-/repo}
OUT=${OUT:-$(cd "$(dirname "$0")/.." && pwd)/build/fiber}
V=${V:-$(cd "$(dirname "$0")/.." && pwd)}
mkdir -p $OUT
INST="-std=gnu11 -O1 -g -fno-inline -fno-omit-frame-pointer -fsanitize=thread --param tsan-distinguish-volatile=1"
DEFS="-DFIBER_STACK_MALLOC -DFIBER_FAST_SWITCHING -DLIBFIBER_VERIF -DNDEBUG -D_GNU_SOURCE"
INC="-I$REPO/include -I$REPO/src -I$V/vrt -I$V/drivers"
LIBSRC="fiber_context fiber_mutex fiber_semaphore fiber_spinlock fiber_cond fiber_barrier fiber_rwlock hazard_pointer work_stealing_deque work_queue"
pids=()
for f in $LIBSRC; do
  gcc $INST $DEFS $INC -w -c $REPO/src/$f.c -o $OUT/$f.o & pids+=($!)
done
for f in wrap_fiber_manager wrap_scheduler wrap_fiber wrap_event_io wrap_io; do
  gcc $INST $DEFS $INC -w -c $V/vrt/$f.c -o $OUT/$f.o & pids+=($!)
done
# module extensions drivers/ext_<mod>.c (all of them, or only those named in $FIBER_EXTS)
EXTS="core ext_all"
for src in $V/drivers/ext_*.c; do
  b=$(basename $src .c)
  [ "$b" = "ext_all" ] && continue
  if [ -n "$FIBER_EXTS" ]; then
    case " $FIBER_EXTS " in *" ${b#ext_} "*) ;; *) continue;; esac
  fi
  EXTS="$EXTS $b"
done
for f in $EXTS; do
  gcc $INST $DEFS $INC -Wall -Wno-unused-function -c $V/drivers/$f.c -o $OUT/drv_$f.o & pids+=($!)
done
gcc -std=gnu11 -O1 -g -Wall -D_GNU_SOURCE -I$V/vrt -c $V/vrt/vrt.c -o $OUT/vrt.o & pids+=($!)
gcc -std=gnu11 -O1 -g -Wall -D__SANITIZE_THREAD__=1 $DEFS $INC -c $V/vrt/vrt_fiber.c -o $OUT/vrt_fiber.o & pids+=($!)
for p in "${pids[@]}"; do wait $p; done
gcc -no-pie -o $OUT/core $OUT/*.o -lpthread -ldl -Wl,--wrap=free,--wrap=pthread_create,--wrap=pthread_join
echo built $OUT/core
