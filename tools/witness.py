#!/usr/bin/env python3
"""Witness-guided executions: a scenario lists state predicates of its module under "witness"
(rarely reached guard states such as "a raiser is at its compare-and-swap with a stale snapshot whose
head matches again").  For each, TLC searches the scenario's model for a behaviour that reaches it
(the counterexample to the invariant "never W": cfg MCW_<scen>_<W>), tools/guide.py turns the
behaviour into schedule directives, and the real library is run under those directives
(VRT_GUIDE) - the recorded execution is then validated against the model like any other.
This is the spec -> implementation direction of the conformance check: the model chooses the
interleaving, the code has to behave as the model says at exactly the place where only one
guard (a counter, a state check) makes the difference."""
import json, os, sys

ROOT = os.path.dirname(os.path.dirname(os.path.abspath(__file__)))
sys.path.insert(0, os.path.join(ROOT, "tools"))
import guide, tracecheck


def make_guides(scen, timeout=600, workers=8, log=lambda *a: None):
    """returns [(witness, guide_path or None, info)]"""
    gen = tracecheck.GEN
    name = scen["name"]
    out = []
    accp = os.path.join(gen, scen["module"] + ".access.json")
    access = json.load(open(accp)) if os.path.exists(accp) else {}
    for w in scen.get("witness", []):
        cex = os.path.join(gen, f"witness_{name}_{w}.json")
        gpath = os.path.join(gen, f"witness_{name}_{w}.guide")
        if os.path.exists(cex):
            os.remove(cex)
        rc, o = tracecheck.run_tlc(f"MCW_{name}_{w}.cfg", f"MC_{name}.tla", None, workers, timeout,
                                   extra=["-dumpTrace", "json", cex], dfs=False)
        info = {"witness": w, "rc": rc}
        import re
        m = re.search(r"(\d+) states generated, (\d+) distinct states found", o)
        if m:
            info["distinct"] = int(m.group(2))
        if f"Invariant NotW_{w} is violated" in o and os.path.exists(cex):
            nst, ndir = guide.convert(cex, gpath, access)
            info.update({"behaviour_states": nst, "directives": ndir})
            out.append((w, gpath, info))
        else:
            info["note"] = "not reached in the model within the limit" if rc == -9 else "unreachable in the model (or TLC error)"
            if "Error:" in o and "is violated" not in o:
                info["error"] = o[o.find("Error:"):][:600]
            out.append((w, None, info))
        log(f"witness {name}/{w}: {info}")
    return out


if __name__ == "__main__":
    import assemble
    scen = json.load(open(sys.argv[1]))
    assemble.assemble(scen["module"])
    assemble.gen_mc(scen)
    for w, g, info in make_guides(scen, log=print):
        if g:
            print(open(g).read())
