#!/usr/bin/env python3
"""Markdown table of what the last run of every check covered (from evidence/*.json)."""
import json, os, sys
ROOT = os.path.dirname(os.path.dirname(os.path.abspath(__file__)))
d = sys.argv[1] if len(sys.argv) > 1 else os.path.join(ROOT, "evidence")
print("| prop | tier | exhaustive TLC runs (distinct states) | executions of the real code | validated by TLC | oracle-only | wall s |")
print("|---|---|---|---|---|---|---|")
for i in range(1, 21):
    p = "C%02d" % i
    try:
        e = json.load(open(os.path.join(d, p + ".json")))
    except OSError:
        continue
    c = e["coverage"]
    ex = ", ".join(f"{r.get('scenario', r.get('name', '?'))} ({r.get('distinct', '?')})" for r in c.get("tlc_runs", [])
                   if r.get("mode", "exhaustive") in ("exhaustive", "liveness"))
    sc = c.get("scenarios", [])
    execs = sum(s.get("executions", 0) for s in sc) or c.get("ioshim_sequences", 0) or c.get("sequences", "")
    val = c.get("traces_validated_against_impl", "")
    oo = (execs - val) if isinstance(execs, int) and isinstance(val, int) and sc else 0
    print(f"| {p} | {e.get('tier')} | {ex} | {execs} | {val} | {oo} | {e.get('wall_s')} |")
