#!/usr/bin/env python3
"""writes MANIFEST.json from tools/props.py (single source of truth for what is claimed)"""
import json, os, sys
ROOT = os.path.dirname(os.path.dirname(os.path.abspath(__file__)))
sys.path.insert(0, os.path.join(ROOT, "tools"))
from props import CLAIMED as PROPS, NOT_CLAIMED

hooks = {
    "guard": "LIBFIBER_VERIF",
    "enable": "tools/build_*.sh compile /repo/src and /repo/include with -DLIBFIBER_VERIF (plus -fsanitize=thread instrumentation linked against /verif/vrt/vrt.c instead of libtsan)",
    "baseline_off_cmd": "cmake -G Ninja -S /repo -B /repo/_build -DCMAKE_BUILD_TYPE=RelWithDebInfo -DCMAKE_C_FLAGS=-Wno-error -DFIBER_RUN_TESTS_WITH_BUILD=OFF && cmake --build /repo/_build && ctest --test-dir /repo/_build -j8 --timeout 900",
    "source_commits": ["82e8692", "072993b"],
    "add_only": True,
}
checks = []
for pid in sorted(PROPS):
    p = PROPS[pid]
    checks.append({
        "property_id": pid,
        "quick_cmd": p.get("quick_cmd", f"python3 tools/check.py {pid} --tier quick"),
        "thorough_cmd": p.get("thorough_cmd", f"python3 tools/check.py {pid} --tier thorough"),
        "evidence_file": f"/verif/evidence/{pid}.json",
        "replay_cmd_template": p.get("replay_cmd_template", "python3 tools/check.py replay {path}"),
        "engine": "tlc+vrt",
        "level_claimed": {"category": "model_checking", "text": p["level_text"], "design_ref": p.get("design_ref", "DESIGN.md §10")},
        "level_note": p.get("level_note", "Trusted: TLC/SANY/pcal, gcc's tsan instrumentation pass as event source, the vrt runtime and drivers, the projection MemAt of each module; exhaustive only for the stated small constants, x86-TSO, kernel semantics of eventfd/epoll/AF_UNIX."),
        "technique": p.get("technique", "explicit TLA+/PlusCal spec; TLC exhaustive model checking + TLC trace validation of recorded executions of the real library under a controlled scheduler"),
    })
m = {
    "version": 1,
    "setup_cmd": "python3 tools/setup_all.py",
    "hooks": hooks,
    "engines": [{"name": "tlc+vrt", "path": "/verif/tools/check.py", "serves_properties": sorted(PROPS),
                 "kind_free_text": "TLA+ specs (spec/), TLC exhaustive + trace validation; vrt = own __tsan ABI runtime with controlled scheduler (vrt/), scenario drivers (drivers/)"}],
    "checks": checks,
    "not_applicable": [{"property_id": k, "reason": v} for k, v in sorted(NOT_CLAIMED.items())],
    "notes": "See DESIGN.md. known_findings.json lists recorded findings and fixes.",
}
json.dump(m, open(os.path.join(ROOT, "MANIFEST.json"), "w"), indent=1)
print("MANIFEST.json written:", len(checks), "checks")
