"""Per-property configuration of tools/check.py (scenarios are in /verif/scen)."""

PROPS = {
    "C03": {
        "mc": {"quick": ["core_mutex2"], "thorough": ["core_mutex2", "core_mutex3"]},
        "scenarios": {"quick": ["core_mutex2", "mutex_t3"], "thorough": ["core_mutex2", "mutex_t3", "mutex_try"]},
        "seeds": {"quick": 40, "thorough": 500},
    },
}
