"""Per-property configuration of tools/check.py (scenarios are in /verif/scen)."""

PROPS = {
    "C03": {
        "level_text": "The PlusCal model of the runtime core + mutex (spec/core/FiberCore.tmpl) is model-checked exhaustively by TLC for 2 kernel threads / 2 fibers (mutual exclusion, one hand-off per unlock, no fiber blocked at quiescence) and every recorded execution of the real fiber_mutex_* code under seeded controlled schedules (2-3 kernel threads, 2-3 fibers, lock/trylock/unlock) is validated by TLC as a behaviour of that spec, with an API-level AtomicLock monitor evaluated on the call/return history.",
        "mc": {"quick": ["core_mutex2"], "thorough": ["core_mutex2", "core_mutex3"]},
        "scenarios": {"quick": ["core_mutex2", "mutex_t3"], "thorough": ["core_mutex2", "mutex_t3", "mutex_try"]},
        "seeds": {"quick": 40, "thorough": 500},
    },
}

PROPS["C15"] = {
    "level_text": "PlusCal models of the MPSC, SPSC and relaxed-MPSC queues with node identities are model-checked exhaustively (2-3 producers x 2 items, consumer interleaved at every atomic step: each item popped once, per-producer order, abstract-queue refinement); recorded executions of the real inline queue code under seeded controlled schedules are validated step by step against the models, and the call/return history is checked by a queue monitor (exactly-once, per-producer FIFO, real-time order for the strict MPSC queue, legality of every empty result).",
    "mc": {"quick": ["mpsc_2p"], "thorough": ["mpsc_2p", "mpsc_3p"]},
    "scenarios": {"quick": ["mpsc_2p"], "thorough": ["mpsc_2p", "mpsc_3p"]},
    "seeds": {"quick": 60, "thorough": 1000},
}

ALL = ["C%02d" % i for i in range(1, 21)]
NOT_CLAIMED = {p: "check not yet built in this revision of /verif (model-based check under construction; see DESIGN.md section 10)" for p in ALL if p not in PROPS}
