"""Per-property configuration of tools/check.py: one JSON file per property in /verif/props
(scenarios are in /verif/scen).  Keys: level_text, mc{quick,thorough}, live{...}, scenarios{...},
seeds{...}, mc_timeout{...}, assumptions[], technique, level_note."""
import glob, json, os

ROOT = os.path.dirname(os.path.dirname(os.path.abspath(__file__)))
PROPS = {}
for _p in sorted(glob.glob(os.path.join(ROOT, "props", "C*.json"))):
    PROPS[os.path.basename(_p)[:-5]] = json.load(open(_p))
# ad-hoc experiments: VERIF_PROPS_EXTRA=<file.json> is loaded as property "X<name>" (never registered)
if os.environ.get("VERIF_PROPS_EXTRA"):
    _x = os.environ["VERIF_PROPS_EXTRA"]
    PROPS["X" + os.path.basename(_x)[:-5]] = json.load(open(_x))
# properties whose check is still under construction (not registered in MANIFEST.json yet)
_WIP = os.path.join(ROOT, "props", "wip.json")
WIP = set(json.load(open(_WIP))) if os.path.exists(_WIP) else set()
CLAIMED = {k: v for k, v in PROPS.items() if k not in WIP and not k.startswith("X")}
ALL = ["C%02d" % i for i in range(1, 21)]
_NA = os.path.join(ROOT, "props", "not_claimed.json")
_reasons = json.load(open(_NA)) if os.path.exists(_NA) else {}
NOT_CLAIMED = {p: _reasons.get(p, "check not yet built in this revision of /verif (model-based check under construction; see DESIGN.md section 10)")
               for p in ALL if p not in CLAIMED}
