"""Per-property configuration of tools/check.py (scenarios are in /verif/scen)."""

PROPS = {
    "C03": {
        "level_text": "The PlusCal model of the runtime core + mutex (spec/core/FiberCore.tmpl) is model-checked exhaustively by TLC for 2 kernel threads / 2 fibers (mutual exclusion, one hand-off per unlock, no fiber blocked at quiescence) and every recorded execution of the real fiber_mutex_* code under seeded controlled schedules (2-3 kernel threads, 2-3 fibers, lock/trylock/unlock) is validated by TLC as a behaviour of that spec, with an API-level AtomicLock monitor evaluated on the call/return history.",
        "mc": {"quick": ["core_mutex2"], "thorough": ["core_mutex2", "core_mutex3"]},
        "scenarios": {"quick": ["core_mutex2", "mutex_t3"], "thorough": ["core_mutex2", "mutex_t3", "mutex_try"]},
        "seeds": {"quick": 40, "thorough": 500},
    },
}

ALL = ["C%02d" % i for i in range(1, 21)]
NOT_CLAIMED = {p: "check not yet built in this revision of /verif (model-based check under construction; see DESIGN.md section 10)" for p in ALL if p not in PROPS}
