#!/usr/bin/env python3
"""Property C08, part B (IOWait): concurrency of fiber_wait_for_event / fiber_poll_events_internal /
fiber_fd_closed and the blocking loops of fiber_io.c, on top of the runtime-core model
(spec/mod/IOWait.mod + spec/core/FiberCore.tmpl).  Used by tools/check_c08.py."""
import glob, hashlib, json, os, shutil, subprocess, sys, time

ROOT = os.path.dirname(os.path.dirname(os.path.abspath(__file__)))
sys.path.insert(0, os.path.join(ROOT, "tools"))


def fix_nfn(evs):
    """nfn = C function (or system call) containing the next scheduling point / system call of the same thread:
    a "sys" record pins the position too (pseudo function sys_<op>, see FNPROC of IOWait.mod)"""
    import tracecheck
    nxt = {}
    for e in reversed(evs):
        k = e.get("k")
        if k == "sys":
            e["nfn"] = ""
            e.setdefault("fds", [])
            e.setdefault("evs", [])
            nxt[e["t"]] = "sys_" + e.get("op", "")
        elif k in tracecheck.STEP_KINDS:
            e["nfn"] = nxt.get(e["t"], "")
            fn = e.get("fn", "")
            if k in ("cont", "reg"):
                pass
            elif k == "start" or not fn or fn == "?":
                nxt[e["t"]] = ""
            else:
                nxt[e["t"]] = fn
        else:
            e["nfn"] = ""


TIERS = {
    # mc: exhaustive TLC (scenario, workers); run: recorded executions of the real code validated against the model
    "quick": {
        "mc": ["io_rw1", "io_2rd1", "io_rdwr1", "io_dirrd1", "io_dirwr1", "io_close1", "io_pipe1", "io_accept1", "io_rw2tns", "io_close2tns"],
        "run": ["io_rw2t", "io_2rd2t", "io_rdwr2t", "io_dirrd1", "io_dirwr1", "io_close2t", "io_closerace2t", "io_pipe2t", "io_accept1", "io_accept2t"],
        "seeds": 6, "mc_timeout": 300, "mc_par": 6, "mc_workers": 1,
        # searched for a bounded time only (complete in the thorough tier)
        "mc_bounded": {"io_closerace2t": 60},
    },
    "thorough": {
        "mc": ["io_rw1", "io_2rd1", "io_rdwr1", "io_dirrd1", "io_dirwr1", "io_close1", "io_pipe1", "io_accept1", "io_rw2t", "io_close2t", "io_closerace2t",
               "io_2rd2tns", "io_pipe2tns", "io_rdwr2tns", "io_accept2tns", "io_2rd2t"],
        "run": ["io_rw1", "io_rw2t", "io_2rd1", "io_2rd2t", "io_rdwr1", "io_rdwr2t", "io_dirrd1", "io_dirwr1", "io_dirrd2t", "io_dirwr2t", "io_close1", "io_close2t", "io_closerace2t",
                "io_closewr1", "io_closewr2t", "io_pipe1", "io_pipe2t", "io_accept1", "io_accept2t"],
        "seeds": 120, "mc_timeout": 1200, "mc_par": 3, "mc_workers": 2, "mc_bounded": {},
    },
}
MAY_TIMEOUT = {"io_2rd2t", "io_2rd2tns", "io_pipe2tns", "io_accept2tns", "io_rdwr2tns", "io_rw2t", "io_close2t", "io_closerace2t"}  # thorough: state count is what was explored within the limit


def tree_hash(paths):
    h = hashlib.sha256()
    for p in paths:
        if os.path.isdir(p):
            for dp, dn, fn in sorted(os.walk(p)):
                dn.sort()
                for f in sorted(fn):
                    if f.endswith((".c", ".h", ".sh")):
                        h.update(f.encode())
                        h.update(open(os.path.join(dp, f), "rb").read())
        elif os.path.exists(p):
            h.update(open(p, "rb").read())
    return h.hexdigest()[:16]


def extract_params(repo):
    """constants of the model that mirror the shape of the code (the model describes the code as it is):
    AcceptLoops — does accept() of fiber_io.c wait again after a failed retry (loop) or retry once (if)?"""
    src = open(os.path.join(repo, "src", "fiber_io.c")).read()
    import re
    m = re.search(r"\nint accept\(ACCEPTPARAMS\) \{(.*?)\n\}\n", src, re.S)
    body = m.group(1) if m else ""
    loops = bool(re.search(r"while\s*\(\s*sock\s*<\s*0", body))
    return {"AcceptLoops": loops, "accept_body_found": bool(m)}


def build_harness(repo, build):
    from c08_shim import Infra, log
    h = tree_hash([os.path.join(repo, "src"), os.path.join(repo, "include"), os.path.join(ROOT, "vrt"),
                   os.path.join(ROOT, "drivers", "core.c"), os.path.join(ROOT, "drivers", "ext_io.c"), os.path.join(ROOT, "drivers", "ext_all.c"),
                   os.path.join(ROOT, "drivers", "drv_ext.h"), os.path.join(ROOT, "tools", "build_fiber_io.sh")])
    out = os.path.join(build, f"c08_fiberio_{h}")
    if not os.path.exists(os.path.join(out, ".ok")):
        for d in glob.glob(os.path.join(build, "c08_fiberio_*")):
            shutil.rmtree(d, ignore_errors=True)
        os.makedirs(out, exist_ok=True)
        r = subprocess.run([os.path.join(ROOT, "tools", "build_fiber_io.sh")], env=dict(os.environ, REPO=repo, OUT=out, FIBER_EXTS="io"),
                           capture_output=True, text=True)
        if r.returncode != 0 or not os.path.exists(os.path.join(out, "core")):
            log(r.stdout[-3000:], r.stderr[-3000:])
            raise Infra("build of the instrumented library + drivers/ext_io.c failed")
        open(os.path.join(out, ".ok"), "w").write("ok")
    return os.path.join(out, "core")


def io_summary(evs):
    """the API/system-call level story of a recorded execution (for replays and samples)"""
    res = []
    for e in evs:
        if e.get("k") == "api" and e.get("op") in ("rd", "wr", "accept", "close") and e.get("ph") == "ret":
            res.append(f"{e['f']}: {e['op']}({e.get('o')}" + (f", {e.get('n')}" if e.get("op") in ("rd", "wr") else "") + f") = {e.get('r')} {e.get('v', '')}".rstrip())
        elif e.get("k") == "sys" and e.get("op") != "ctl":
            res.append(f"  [{e['t']} sys] {e['op']}({e.get('o') or ','.join(e.get('fds', []))}) = {e.get('r')} {e.get('e', '')}{e.get('v', '')}".rstrip())
        elif e.get("k") in ("quiescent", "crash", "budget"):
            res.append(f"  ** {e['k']}")
    return res


def part_b(tier, seed, ev, rep, repo, build, outdir, par):
    import concurrent.futures as cf
    import assemble, check, tracecheck
    from c08_shim import Infra, log
    cfgt = TIERS[tier]
    cov = ev["coverage"]
    os.environ.setdefault("VERIF_TLC_HEAP_MC", "1300m" if tier == "quick" else "2500m")
    t1 = time.time()
    assemble.assemble("IOWait")
    bounded = cfgt.get("mc_bounded", {})
    scens = {n: check.load_scen(n) for n in set(cfgt["mc"]) | set(cfgt["run"]) | set(bounded)}
    params = extract_params(repo)
    cov["iowait_extracted_parameters"] = params
    for s in scens.values():
        s.setdefault("tla_consts", {})["AcceptLoops"] = "TRUE" if params["AcceptLoops"] else "FALSE"
        assemble.gen_mc(s)
    binary_holder = {}

    def do_build():
        binary_holder["bin"] = build_harness(repo, build)

    # (1) exhaustive TLC on the design, several scenarios at a time; the harness is built meanwhile
    def mc(name):
        st, out = check.tlc_exhaustive(scens[name], workers=cfgt["mc_workers"], timeout=bounded.get(name, cfgt["mc_timeout"]))
        return name, st, out

    with cf.ThreadPoolExecutor(max_workers=cfgt["mc_par"] + 1) as ex:
        fb = ex.submit(do_build)
        results = list(ex.map(mc, list(bounded) + cfgt["mc"]))
        fb.result()
    log(f"  IOWait: exhaustive TLC on {len(cfgt['mc'])} scenarios + build {time.time() - t1:.1f}s")
    for name, st, out in results:
        if "generated" not in st:
            import re
            m = re.findall(r"(\d[\d,]*) states generated.*?(\d[\d,]*) distinct states found", out)
            if m:
                st["generated"], st["distinct"] = int(m[-1][0].replace(",", "")), int(m[-1][1].replace(",", ""))
        cov["tlc_runs"].append({"scenario": name, "mode": "bounded-time search" if name in bounded else "exhaustive",
                                **{k: v for k, v in st.items() if k != "error"}})
        cov["transitions"] += st.get("generated", 0)
        cov["states"] += st.get("distinct", 0)
        if st.get("violated"):
            p = os.path.join(outdir, f"design_{name}.txt")
            open(p, "w").write(out)
            for inv in st["violated"]:
                sig = {"check": "iowait", "kind": "design", "scenario": name, "invariant": inv}

                def writer(p=p, name=name, inv=inv):
                    rp = os.path.join(outdir, f"replay_wait_design_{name}.json")
                    json.dump({"property": "C08", "part": "B", "kind": "design", "scenario": name, "invariant": inv, "tlc": p,
                               "what": f"TLC: the design model (as the code is) violates {inv} in scenario {name}; counterexample in {p}"}, open(rp, "w"), indent=1)
                    return rp
                rep.add(sig, f"IOWait design: TLC finds {inv} violated in {name}", writer)
        elif not st.get("complete"):
            if st["rc"] == -9 and (name in MAY_TIMEOUT or name in bounded):
                cov["tlc_runs"][-1]["note"] = "stopped by the time limit (state count is what was explored)"
            else:
                log(st.get("error", "")[-1500:])
                raise Infra(f"TLC failed on {name}")

    # (2) the real code under the controlled scheduler, (3) validation of every recorded execution
    binary = binary_holder["bin"]
    t1 = time.time()
    nvalid = 0
    collected = {}
    for name in cfgt["run"]:
        scen = scens[name]
        seeds = [seed * 100003 + i for i in range(1, cfgt["seeds"] + 1)]
        tdir = os.path.join(outdir, "traces")
        check.PAR = par
        res = check.run_traces(binary, scen, seeds, tdir)
        traces, meta, nbad = [], [], 0
        for (tr, rc, err), sd in zip(res, seeds):
            if not os.path.exists(tr):
                raise Infra(f"no trace from {binary} seed {sd}: rc={rc} {err}")
            evs = tracecheck.load_ndjson(tr)
            fix_nfn(evs)
            bad = check.prefilter(evs)
            if bad:
                tr2, rc2, _ = check.run_one(binary, scen, sd, tdir + "_confirm")
                bad2 = check.prefilter(tracecheck.load_ndjson(tr2)) if os.path.exists(tr2) else []
                if [b[0] for b in bad2] != [b[0] for b in bad]:
                    raise Infra(f"non-reproducible oracle failure {name} seed {sd}")
                nbad += 1
                k, e = bad[0]
                sig = {"check": "iowait", "kind": k, "scenario": name}

                def writer(name=name, sd=sd, k=k, tr=tr, evs=evs):
                    rp = check.write_replay(outdir, "C08", scen, sd, f"{k}: {check.BAD_KINDS.get(k, k)}", tr)
                    r = json.load(open(rp))
                    r.update({"part": "B", "story": io_summary(evs), "rerun": f"REPO={repo} python3 tools/check_c08.py --replay {rp}"})
                    json.dump(r, open(rp, "w"), indent=1)
                    return rp
                rep.add(sig, f"IOWait {name} seed {sd}: {check.BAD_KINDS.get(k, k)} — a fiber blocked on a descriptor was never resumed"
                        if k == "quiescent" else f"IOWait {name} seed {sd}: {check.BAD_KINDS.get(k, k)}", writer)
                if k != "quiescent":
                    continue  # a lost fiber's execution is still validated (the model must be able to follow it)
            traces.append(evs)
            meta.append((sd, tr))
        collected[name] = (scen, res, traces, meta, nbad)

    def val(name):
        traces = collected[name][2]
        if not traces:
            return name, (set(), "", {})
        return name, tracecheck.validate(name, traces, workers=vworkers, timeout=3000)

    # at most `par` TLC processes at a time: few traces per scenario -> one process each, scenarios in parallel;
    # many traces per scenario -> `par` processes for one scenario after the other
    many = cfgt["seeds"] > 40
    vworkers = par if many else 1
    with cf.ThreadPoolExecutor(max_workers=1 if many else par) as ex:
        validated = dict(ex.map(val, cfgt["run"]))
    for name in cfgt["run"]:
        scen, res, traces, meta, nbad = collected[name]
        srec = {"scenario": name, "executions": len(res), "direct_oracle_failures": nbad, "validated": 0, "rejected": 0}
        if traces:
            acc, out, st = validated[name]
            if st.get("error") and not st.get("violated"):
                log(st["error"][-1500:])
                raise Infra(f"TLC trace validation failed for {name}")
            cov["transitions"] += st.get("generated", 0)
            cov["states"] += st.get("distinct", 0)
            seen = set()
            for inv, vt in st.get("violated", []):
                sd, trp = meta[(vt or 1) - 1]
                if (inv, sd) in seen:
                    continue
                seen.add((inv, sd))
                evs = traces[(vt or 1) - 1]
                why = ""
                if inv == "MonOK":
                    m = [l for l in out.splitlines() if "bad |->" in l]
                    why = m[-1].strip()[:200] if m else ""
                sig = {"check": "iowait", "kind": "invariant", "scenario": name, "invariant": inv}

                def writer(name=name, sd=sd, inv=inv, trp=trp, out=out, evs=evs, why=why):
                    p = os.path.join(outdir, f"tracecheck_{name}_{sd}.txt")
                    open(p, "w").write(out)
                    rp = check.write_replay(outdir, "C08", scen, sd, f"invariant {inv} violated on a recorded execution {why}", trp, tlc=p)
                    r = json.load(open(rp))
                    r.update({"part": "B", "story": io_summary(evs), "rerun": f"REPO={repo} python3 tools/check_c08.py --replay {rp}"})
                    json.dump(r, open(rp, "w"), indent=1)
                    return rp
                rep.add(sig, f"IOWait {name} seed {sd}: invariant {inv} violated on the recorded execution {why}", writer)
            rejected = [j for j in range(1, len(traces) + 1) if j not in acc and j not in set(st.get("cancelled", []))]
            if st.get("violated"):
                # validation processes stop at their first violation: only count what was examined
                rejected = []
            for j in rejected[:2]:
                sd, trp = meta[j - 1]
                mx, last, _ = tracecheck.diagnose(name, traces[j - 1])
                evd = traces[j - 1][mx - 1] if 0 < mx <= len(traces[j - 1]) else {}
                sig = {"check": "iowait", "kind": "divergence", "scenario": name, "fn": evd.get("fn") or evd.get("op")}

                def writer(name=name, sd=sd, trp=trp, mx=mx, last=last, evd=evd, j=j):
                    p = os.path.join(outdir, f"diverge_{name}_{sd}.txt")
                    open(p, "w").write(f"trace {trp}\nrejected at event {mx}: {json.dumps(evd)}\nspec state reached before it:\n{last}\n")
                    rp = check.write_replay(outdir, "C08", scen, sd, f"divergence from the specification at event {mx}", trp, tlc=p)
                    r = json.load(open(rp))
                    r.update({"part": "B", "story": io_summary(traces[j - 1]), "rerun": f"REPO={repo} python3 tools/check_c08.py --replay {rp}"})
                    json.dump(r, open(rp, "w"), indent=1)
                    return rp
                rep.add(sig, f"IOWait {name} seed {sd}: the recorded execution is not a behaviour of the model (event {mx}: {json.dumps(evd)[:160]})", writer)
            srec["validated"] = len(acc)
            srec["rejected"] = len(rejected)
            nvalid += len(acc)
            if acc and sum(1 for s in cov["samples"] if s.get("part") == "B") < 2:
                j = sorted(acc)[0]
                cov["samples"].append({"part": "B", "scenario": name, "seed": meta[j - 1][0], "events": len(traces[j - 1]),
                                       "story": io_summary(traces[j - 1])[:24]})
        cov.setdefault("iowait_scenarios", []).append(srec)
        shutil.rmtree(tdir + "_confirm", ignore_errors=True)
    cov["traces_validated_against_impl"] += nvalid
    log(f"  IOWait: {sum(s['executions'] for s in cov['iowait_scenarios'])} controlled executions, {nvalid} validated by TLC, {time.time() - t1:.1f}s")
    for s in cov["iowait_scenarios"]:
        log(f"    {s}")


def replay(r):
    import check, tracecheck
    import assemble
    scen = check.load_scen(r["scenario"])
    scen.setdefault("tla_consts", {})["AcceptLoops"] = "TRUE" if extract_params(os.environ.get("REPO", "/repo"))["AcceptLoops"] else "FALSE"
    if r.get("kind") == "design":
        print(open(r["tlc"]).read()[-6000:])
        return 1
    repo = os.environ.get("REPO", "/repo")
    binary = build_harness(repo, os.environ.get("VERIF_BUILD_DIR", os.path.join(ROOT, "build")))
    import tempfile
    d = tempfile.mkdtemp(prefix="c08_replay_")
    tr, rc, err = check.run_one(binary, scen, r["seed"], d)
    evs = tracecheck.load_ndjson(tr)
    print(f"replayed {r['scenario']} seed {r['seed']}: {len(evs)} events; recorded finding: {r['what']}")
    for l in io_summary(evs):
        print("   ", l)
    bad = check.prefilter(evs)
    for k, e in bad:
        print("  oracle:", k, json.dumps(e)[:300])
    print("  trace:", tr)
    return 1 if bad else 0
