#!/usr/bin/env python3
"""Run checks against a seeded change without touching /repo:
   seedtest.py <seeded-dir-or-patch> <Cxx> [tier] [more Cyy ...]
copies /repo (HEAD + working tree) to a scratch dir, applies the patch there, runs
`REPO=<scratch> check` for the property, prints the outcome, removes the scratch copy."""
import json, os, shutil, subprocess, sys, tempfile

ROOT = os.path.dirname(os.path.dirname(os.path.abspath(__file__)))


def main():
    src = sys.argv[1]
    props = [a for a in sys.argv[2:] if a.startswith(("C", "X"))]
    tier = "thorough" if "thorough" in sys.argv else "quick"
    patch = os.path.join(src, "patch.diff") if os.path.isdir(src) else src
    scratch = tempfile.mkdtemp(prefix="seedtest_")
    repo = os.path.join(scratch, "repo")
    subprocess.run(["rsync", "-a", "--exclude", "_build", "--exclude", ".git", "/repo/", repo + "/"], check=True)
    r = subprocess.run(["patch", "-p1", "-d", repo, "-i", os.path.abspath(patch)], capture_output=True, text=True)
    if r.returncode != 0:
        print("patch failed:", r.stdout[-500:], r.stderr[-500:])
        shutil.rmtree(scratch, ignore_errors=True)
        return 2
    res = {}
    env = dict(os.environ, REPO=repo, VERIF_BUILD_DIR=os.path.join(scratch, "build"),
               VERIF_OUT_DIR=os.path.join(scratch, "out"), VERIF_EVIDENCE_DIR=os.path.join(scratch, "evidence"),
               VERIF_GEN_DIR=os.path.join(scratch, "gen"))
    for p in props:
        pf = os.environ.get("VERIF_PROPS_EXTRA") if p.startswith("X") else os.path.join(ROOT, "props", p + ".json")
        cfg = json.load(open(pf))
        cmd = cfg.get(tier + "_cmd", f"python3 tools/check.py {p} --tier {tier}")
        r = subprocess.run(cmd, shell=True, cwd=ROOT, env=env, capture_output=True, text=True)
        lines = [l for l in r.stdout.splitlines() if l.startswith(("VIOLATION", "KNOWN-FINDING"))]
        detail = [l.strip() for l in r.stderr.splitlines() if l.startswith("  ")][:3]
        res[p] = {"exit": r.returncode, "lines": lines[:4], "detail": detail}
        print(p, tier, "exit", r.returncode, "|", (lines[:1] or ["-"])[0][:160])
        for d in detail[:2]:
            print("     ", d[:220])
    shutil.rmtree(scratch, ignore_errors=True)
    return 0


if __name__ == "__main__":
    sys.exit(main())
