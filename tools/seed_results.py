#!/usr/bin/env python3
"""Record the outcome of running the checks against the seeded changes (seeded/<id>/):
   seed_results.py <log written by the re-test loop>   (lines: "<id> wall=<s> <Cxx> <tier> exit <rc> | <first line> <details>")
updates seeded/<id>/meta.json ("verif_result") and prints the markdown table for DESIGN.md."""
import json, os, re, sys
ROOT = os.path.dirname(os.path.dirname(os.path.abspath(__file__)))
rows = []
for line in open(sys.argv[1]):
    m = re.match(r"(C\d\d_m\d+) wall=(\d+) (C\d\d) (\w+) exit (-?\d+) \| (.*)", line.strip())
    if not m:
        continue
    mid, wall, prop, tier, rc, rest = m.groups()
    how = "not detected"
    if int(rc) == 1:
        if "memory order weaker than required" in rest:
            how = "memory orders extracted from the recorded execution are weaker than the model requires (x86-TSO re-check)"
        elif rest.startswith("KNOWN-FINDING") or prop == "C08":
            how = "IOShim / IOWait: a model-generated call sequence or a validated execution disagrees with the model (a VIOLATION line besides the listed known finding)"
        elif "not a behaviour of the specification" in rest:
            ev = re.search(r'"k": "(\w+)", "a": "([\w.]+)", "fn": "(\w+)"', rest)
            how = "trace rejected by the model" + (f" at `{ev.group(1)} {ev.group(2)}` in `{ev.group(3)}`" if ev else "")
        elif "invariant" in rest:
            iv = re.search(r"invariant (\w+)", rest)
            how = f"invariant {iv.group(1)} violated on a recorded execution" if iv else "invariant violated on a recorded execution"
        elif "design:" in rest:
            how = "design model"
        else:
            k = re.search(r"seed \d+: ([^{]*)", rest)
            how = "harness oracle: " + (k.group(1).strip() if k else rest[:80])
        sc = re.search(r"replay_(\w+?)_\d+\.json", rest)
        if sc:
            how += f" (scenario `{sc.group(1)}`)"
    elif int(rc) != 0:
        how = f"check error (exit {rc})"
    d = os.path.join(ROOT, "seeded", mid)
    meta = json.load(open(os.path.join(d, "meta.json")))
    meta["verif_result"] = {"ran": f"python3 tools/seedtest.py seeded/{mid} {prop}   # applies patch.diff to a scratch copy of /repo, runs the {tier} check of {prop}",
                            "exit": int(rc), "detected": int(rc) == 1, "how": how, "wall_s": int(wall)}
    json.dump(meta, open(os.path.join(d, "meta.json"), "w"), indent=1)
    rows.append((mid, prop, meta.get("summary", "")[:110].replace("|", "/"), how, wall))
print("| seeded change | what it does | detected by (quick tier) | s |")
print("|---|---|---|---|")
for mid, prop, summ, how, wall in rows:
    print(f"| {mid} | {summ} | {how} | {wall} |")
