#!/usr/bin/env python3
"""Property C08 (shimmed descriptor I/O): model-based check in two parts.

  python3 tools/check_c08.py --tier quick|thorough     (env: VERIF_SEED, REPO, VERIF_BUILD_DIR, VERIF_OUT_DIR, VERIF_PAR)
  python3 tools/check_c08.py --replay <replay.json>
  python3 tools/check_c08.py --tier quick --part A|B   (one part only, for development)

 (A) IOShim  — sequential semantics, model-based testing: spec/IOShim.tla is the oracle (what the plain POSIX
     call may return) and, through TLC, the exhaustive generator of call sequences; drivers/io_exec.c performs them
     inside fibers of the real library (tools/c08_shim.py).
 (B) IOWait  — concurrency of fiber_wait_for_event / fiber_poll_events_internal / fiber_fd_closed and the blocking
     loops of fiber_io.c on top of the runtime-core PlusCal model (spec/mod/IOWait.mod): exhaustive TLC on small
     scenarios, the real code under the controlled scheduler (drivers/ext_io.c, vrt/wrap_event_native.c), every
     recorded execution validated against the model by TLC (tools/c08_wait.py).

Exit 0: held (KNOWN-FINDING lines for violations listed in known_findings.json); 1: VIOLATION lines; 2: infrastructure.
"""
import concurrent.futures as cf
import hashlib, json, os, shutil, subprocess, sys, time

ROOT = os.path.dirname(os.path.dirname(os.path.abspath(__file__)))
sys.path.insert(0, os.path.join(ROOT, "tools"))
import c08_shim as S  # noqa: E402

REPO = os.environ.get("REPO", "/repo")
BUILD = os.environ.get("VERIF_BUILD_DIR", os.path.join(ROOT, "build"))
OUT = os.path.join(os.environ.get("VERIF_OUT_DIR", os.path.join(ROOT, "out")), "C08")
KNOWN = os.environ.get("VERIF_KNOWN_FINDINGS", os.path.join(ROOT, "known_findings.json"))  # read-only; the override is for testing entries
PAR = max(1, min(int(os.environ.get("VERIF_PAR", "6")), 16))
PROP = "C08"
Infra = S.Infra
log = S.log


# ------------------------------------------------------------------ known findings
def load_known():
    if not os.path.exists(KNOWN):
        return []
    return [f for f in json.load(open(KNOWN)).get("findings", []) if f.get("property") == PROP]


def known_match(sig, known):
    """a finding matches if every key of its "match" agrees with the signature (a list value: any of)"""
    for f in known:
        m = f.get("match", {})
        if m and all((sig.get(k) in v) if isinstance(v, list) else (sig.get(k) == v) for k, v in m.items()):
            return f
    return None


class Report:
    def __init__(self):
        self.known = load_known()
        self.groups = {}  # key -> dict(sig, desc, replay, count, kf)

    def add(self, sig, desc, replay_writer):
        key = json.dumps({k: sig.get(k) for k in ("check", "what", "opclass", "mode", "dkind", "lastmode", "got", "scenario", "invariant", "kind", "fn")}, sort_keys=True)
        g = self.groups.get(key)
        if g:
            g["count"] += 1
            return
        self.groups[key] = {"sig": sig, "desc": desc, "replay": replay_writer(), "count": 1, "kf": known_match(sig, self.known)}

    def finish(self):
        viol = [g for g in self.groups.values() if not g["kf"]]
        kfs = {}
        for g in self.groups.values():
            if g["kf"]:
                kfs.setdefault(g["kf"]["id"], g["kf"])
        for kf in kfs.values():
            print(f"KNOWN-FINDING: property={PROP} {kf['what']}")
        for g in viol[:40]:
            print(f"VIOLATION property={PROP} replay={g['replay']}")
            log(f"  [{g['count']}x] {g['desc']}")
            log(f"      signature: {json.dumps({k: v for k, v in g['sig'].items() if v not in ('', None)})}")
        if len(viol) > 40:
            log(f"  ... and {len(viol) - 40} more violation classes (see evidence)")
        return viol, sorted(kfs)


# ------------------------------------------------------------------ part A
def tree_hash(paths):
    h = hashlib.sha256()
    for p in paths:
        if os.path.isdir(p):
            for dp, dn, fn in sorted(os.walk(p)):
                dn.sort()
                for f in sorted(fn):
                    if f.endswith((".c", ".h", ".sh")):
                        h.update(f.encode())
                        h.update(open(os.path.join(dp, f), "rb").read())
        else:
            h.update(open(p, "rb").read())
    return h.hexdigest()[:16]


def build_ioexec():
    h = tree_hash([os.path.join(REPO, "src"), os.path.join(REPO, "include"), os.path.join(ROOT, "drivers", "io_exec.c"),
                   os.path.join(ROOT, "tools", "build_ioexec.sh")])
    out = os.path.join(BUILD, f"c08_ioexec_{h}")
    if not os.path.exists(os.path.join(out, ".ok")):
        import glob
        for d in glob.glob(os.path.join(BUILD, "c08_ioexec_*")):
            shutil.rmtree(d, ignore_errors=True)
        os.makedirs(out, exist_ok=True)
        r = subprocess.run([os.path.join(ROOT, "tools", "build_ioexec.sh")], env=dict(os.environ, REPO=REPO, OUT=out),
                           capture_output=True, text=True)
        if r.returncode != 0:
            log(r.stdout[-3000:], r.stderr[-3000:])
            raise Infra("build of drivers/io_exec.c + library failed")
        open(os.path.join(out, ".ok"), "w").write("ok")
    return {"asan": os.path.join(out, "io_exec_asan"), "prod": os.path.join(out, "io_exec_prod")}


def tcp_available():
    import socket
    try:
        s = socket.socket()
        s.bind(("127.0.0.1", 0))
        s.listen(1)
        c = socket.socket()
        c.settimeout(1)
        c.connect(s.getsockname())
        c.close()
        s.close()
        return True
    except OSError:
        return False


def part_a(tier, seed, ev, rep):
    cfgt = S.TIERS[tier]
    cov = ev["coverage"]
    bins = build_ioexec()
    # (1) TLC: exhaustive exploration (= oracle invariants on every transition) and generation
    seqs = []  # (origin, seq)
    jobs = [("edges", n, lim) for n, lim in cfgt["edges"]] + [("hist",) + h for h in cfgt["hist"]]

    def gen(job):
        if job[0] == "edges":
            return job, S.gen_edge_cover(job[1], job[2], seed, cfgt["tlc_timeout"])
        return job, S.gen_simulate(job[1], job[2], job[3], job[4], seed, cfgt["tlc_timeout"])

    t1 = time.time()
    with cf.ThreadPoolExecutor(max_workers=PAR) as ex:
        results = list(ex.map(gen, jobs))
    log(f"  IOShim: TLC exploration + generation {time.time() - t1:.1f}s")
    for job, (paths, st, out) in results:
        cov["tlc_runs"].append(st)
        cov["transitions"] += st.get("generated", 0)
        if job[0] == "edges":
            cov["states"] += st.get("distinct", 0)
        if st.get("violated"):
            p = os.path.join(OUT, f"oracle_violation_{job[1]}.txt")
            open(p, "w").write(out)
            # the ORACLE contradicts the property text: the model is wrong -> infrastructure, not a finding
            raise Infra(f"the oracle model violates its own invariants {st['violated']} in {job[1]} (see {p})")
        seqs += [(f"{job[0]}:{job[1]}", q) for q in paths]
    cov["ioshim_sequences"] = len(seqs)
    cov["ioshim_calls"] = sum(1 for _, q in seqs for a in q if a["t"] == "call")
    cov["ioshim_blocking_expectations"] = sum(1 for _, q in seqs for a in q if a["cls"] == "block")
    cov["ioshim_invalid_fd_calls"] = sum(1 for _, q in seqs for a in q if a.get("mode") == "invalid")
    tcp = tcp_available()
    cov["tcp_loopback"] = tcp

    # (2) execute: plain (model vs kernel), asan T=1 (all), prod T=2 (fraction), prod T=1 (thorough)
    import random
    rnd = random.Random(seed)
    runs = []  # (variant, threads, plain, idx, text)
    for i, (origin, q) in enumerate(seqs):
        kinds = q[0]["ik"]
        has_unconn = "unconn" in kinds.values() or "unconnr" in kinds.values()
        # TCP differs from the modelled stream (a write after the peer's close succeeds once, delivery is
        # asynchronous): it is only used to drive connect() through EINPROGRESS, without data transfer
        use_tcp = tcp and has_unconn and all(a["t"] == "call" and S.opclass(a["op"]) not in ("read", "write") for a in q)
        text1 = S.concretise(q, seed, i, 1, kinds, use_tcp)
        runs.append(("plain", 1, True, i, text1))
        runs.append(("asan", 1, False, i, text1))
        if rnd.random() < cfgt["t2_fraction"]:
            runs.append(("prod", 2, False, i, S.concretise(q, seed, i, 2, kinds, use_tcp)))
        if tier == "thorough":
            runs.append(("prod", 1, False, i, text1))

    def run(r):
        variant, threads, plain, i, text = r
        rc, out, err = S.execute(bins["prod" if plain else variant], text, plain)
        return r, rc, out, err

    t1 = time.time()
    with cf.ThreadPoolExecutor(max_workers=PAR) as ex:
        done = list(ex.map(run, runs))
    log(f"  IOShim: {len(runs)} executions {time.time() - t1:.1f}s")
    per = {}
    okseq = [True] * len(seqs)
    cuts = 0
    model_bad = []
    for (variant, threads, plain, i, text), rc, out, err in done:
        key = "plain-kernel" if plain else f"{variant}-T{threads}"
        st = per.setdefault(key, {"executed": 0, "matching": 0, "cut_at_allowed_alternative": 0, "failing": 0})
        st["executed"] += 1
        v = S.compare(seqs[i][1], rc, out, plain)
        if v is None:
            st["matching"] += 1
            continue
        if v[0] == "cut":
            st["cut_at_allowed_alternative"] += 1
            cuts += 1
            continue
        if not plain and ((threads > 1 and v[0].get("what") == "blocked" and v[0].get("mode") == "blocking") or v[0].get("what") == "hang"):
            # several kernel threads: "a ready call did not return by itself" is decided with a patience interval
            # (another kernel thread may be the one that delivers the event); on a loaded machine confirm with a
            # long interval before reporting.  Same for hangs (time limit of the executor).
            rc2, out2, err2 = S.execute(bins[variant], text, False, patience_ms=1500)
            v2 = S.compare(seqs[i][1], rc2, out2, False)
            if v2 is None or v2[0] == "cut":
                st["not_confirmed_under_load"] = st.get("not_confirmed_under_load", 0) + 1
                continue
            v, rc, out, err = v2, rc2, out2, err2
        st["failing"] += 1
        if plain:
            model_bad.append((i, v, text, out))
            continue
        okseq[i] = False
        sig, desc, step = v
        sig = dict(sig, variant=variant, threads=threads)

        def writer(i=i, sig=sig, desc=desc, step=step, text=text, out=out, err=err, variant=variant, threads=threads, rc=rc):
            n = len([f for f in os.listdir(OUT) if f.startswith("replay_shim_")])
            rp = os.path.join(OUT, f"replay_shim_{n:03d}.json")
            json.dump({"property": PROP, "part": "A", "variant": variant, "threads": threads, "what": desc, "signature": sig,
                       "origin": seqs[i][0], "seed": seed, "failing_step": step,
                       "sequence": [S.describe(a) for a in seqs[i][1]], "input": text, "observed": out.splitlines(),
                       "stderr_tail": err[-800:], "exit": rc, "actions": seqs[i][1],
                       "rerun": f"REPO={REPO} python3 tools/check_c08.py --replay {rp}"}, open(rp, "w"), indent=1)
            return rp

        rep.add(sig, f"{key}: {desc}", writer)
    if model_bad:
        i, v, text, out = model_bad[0]
        p = os.path.join(OUT, "model_vs_kernel.txt")
        open(p, "w").write(json.dumps(v[0]) + "\n" + v[1] + "\n" + text + "\n" + out)
        raise Infra(f"the model disagrees with the plain kernel on {len(model_bad)} sequences (first: {v[1]}; see {p})")
    cov["ioshim_executions"] = per
    cov["traces_validated_against_impl"] += sum(1 for x in okseq if x)
    for i, (origin, q) in enumerate(seqs):
        if okseq[i] and sum(1 for a in q if a["cls"] == "block") >= 1 and len(cov["samples"]) < 2:
            cov["samples"].append({"part": "A", "origin": origin, "sequence": [S.describe(a) for a in q],
                                   "executor_input": S.concretise(q, seed, i, 1, q[0]["ik"]).splitlines()})


def replay(path):
    r = json.load(open(path))
    if r.get("part") == "A":
        bins = build_ioexec()
        rc, out, err = S.execute(bins[r["variant"]], r["input"])
        v = S.compare(r["actions"], rc, out)
        print(f"replayed {path} on {r['variant']} (recorded: {r['what']})")
        for l in r["sequence"]:
            print("   ", l)
        print(out)
        if err.strip():
            print(err[-1200:])
        print("RESULT:", "matches the model" if v is None else ("allowed alternative" if v[0] == "cut" else v[1]))
        return 0 if v is None or v[0] == "cut" else 1
    import c08_wait as W
    return W.replay(r)


def main():
    tier = os.environ.get("VERIF_TIER", "quick")
    if "--tier" in sys.argv:
        tier = sys.argv[sys.argv.index("--tier") + 1]
    seed = int(os.environ.get("VERIF_SEED", "1"))
    parts = sys.argv[sys.argv.index("--part") + 1] if "--part" in sys.argv else "AB"
    try:
        if "--replay" in sys.argv:
            return replay(sys.argv[sys.argv.index("--replay") + 1])
        if tier not in S.TIERS:
            raise Infra(f"unknown tier {tier}")
        t0 = time.time()
        shutil.rmtree(OUT, ignore_errors=True)
        os.makedirs(OUT, exist_ok=True)
        ev = {"property_id": PROP, "tier": tier, "seed": seed, "level": "model_checking",
              "coverage": {"states": 0, "transitions": 0, "traces_validated_against_impl": 0, "samples": [], "tlc_runs": [],
                           "checker_cmd": "tlc (TLC2) via tools/check_c08.py; executors drivers/io_exec.c, drivers/core.c + drivers/ext_io.c",
                           "repo": REPO, "parts_run": parts},
              "assumptions": [
                  "kernel semantics as modelled: AF_UNIX stream socketpairs, pipes, AF_UNIX listeners (TCP loopback only for connect); no signals, no timing",
                  "the sequential model is validated against the plain kernel on every generated sequence (executor --plain)",
                  "library built with -DNDEBUG (asserts compiled out), gcc -O1 + AddressSanitizer and gcc -O2; ASan only turns out-of-bounds table accesses into crashes, the deciding oracle is the model's result set",
                  "misuse outside the statement is not generated: read on a pipe's write end / write on its read end, read/write on a listening socket, recv/send on pipes",
                  "part B: the spinlock, the run-queue deque and fiber_scheduler_* are used in their atomic form (their own modules verify them)"],
              "violations": 0}
        rep = Report()
        if "A" in parts:
            part_a(tier, seed, ev, rep)
        if "B" in parts:
            import c08_wait as W
            W.part_b(tier, seed, ev, rep, REPO, BUILD, OUT, PAR)
        viol, kfs = rep.finish()
        ev["wall_s"] = round(time.time() - t0, 1)
        ev["violations"] = len(viol)
        ev["coverage"]["known_findings_seen"] = kfs
        ev["coverage"]["violation_classes"] = [{"signature": g["sig"], "count": g["count"], "what": g["desc"][:300],
                                                "known_finding": g["kf"]["id"] if g["kf"] else None} for g in rep.groups.values()]
        if not ev["coverage"]["samples"]:
            ev["coverage"]["samples"].append({"note": "no accepted implementation run in this tier"})
        ev["coverage"]["states"] = max(1, ev["coverage"]["states"])
        ev["coverage"]["transitions"] = max(1, ev["coverage"]["transitions"])
        evdir = os.environ.get("VERIF_EVIDENCE_DIR", os.path.join(ROOT, "evidence"))
        os.makedirs(evdir, exist_ok=True)
        json.dump(ev, open(os.path.join(evdir, PROP + ".json"), "w"), indent=1)
        for k, v in ev["coverage"].get("ioshim_executions", {}).items():
            log(f"  IOShim {k}: {v}")
        return 1 if viol else 0
    except Infra as e:
        log("INFRASTRUCTURE ERROR:", e)
        return 2


if __name__ == "__main__":
    sys.exit(main())
