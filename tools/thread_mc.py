"""MC/trace configs for thread-regime (standalone) modules."""
import glob, json, os, subprocess
import assemble
from assemble import tla_val, tla_set, GEN

ROOT = os.path.dirname(os.path.dirname(os.path.abspath(__file__)))
_done = set()


def gen(scen):
    name, mod = scen["name"], scen["module"]
    if mod not in _done:
        assemble.assemble_thread(mod)
        _done.add(mod)
    n = scen["threads"]
    scripts = scen["scripts"]  # {"t0": [...], ...}
    lines = ["@@HEAD@@", "", f"cThreads == 0..{n - 1}"]
    sc = " @@ ".join(f"{i} :> {tla_val(scripts.get('t%d' % i, []))}" for i in range(n))
    lines.append(f"cScript == ({sc})")
    cl = ["CONSTANTS", " Threads <- cThreads", " Script <- cScript", ' defaultInitValue = defaultInitValue']
    for k, v in scen.get("consts", {}).items():
        if isinstance(v, dict) and "tla" in v:
            lines.append(f"c{k} == {v['tla']}")
        elif isinstance(v, dict) and "set" in v:
            lines.append(f"c{k} == {tla_set(v['set'])}")
        else:
            lines.append(f"c{k} == {tla_val(v)}")
        cl.append(f" {k} <- c{k}")
    lines.append("====")
    body = "\n".join(lines) + "\n"
    open(os.path.join(GEN, f"MC_{name}.tla"), "w").write(body.replace("@@HEAD@@", f"---- MODULE MC_{name} ----\nEXTENDS {mod}"))
    open(os.path.join(GEN, f"MCT_{name}.tla"), "w").write(body.replace("@@HEAD@@", f"---- MODULE MCT_{name} ----\nEXTENDS Trace{mod}"))
    invs = scen.get("invariants", [])
    mc = ["SPECIFICATION MCSpec"] + cl + (["INVARIANTS"] + [" " + i for i in invs] if invs else []) + ["CHECK_DEADLOCK FALSE"]
    if scen.get("constraint"):
        mc += ["CONSTRAINT " + scen["constraint"]]
    open(os.path.join(GEN, f"MC_{name}.cfg"), "w").write("\n".join(mc) + "\n")
    live = ["SPECIFICATION MCFair"] + cl + ["PROPERTY Live", "CHECK_DEADLOCK FALSE"]
    open(os.path.join(GEN, f"MCL_{name}.cfg"), "w").write("\n".join(live) + "\n")
    tinv = scen.get("trace_invariants", invs)
    tr = ["SPECIFICATION TSpec"] + cl + ["INVARIANTS", " Accepted", " MonOK"] + [" " + i for i in tinv] + \
         ["CONSTRAINT NotYetAccepted", "CHECK_DEADLOCK FALSE"]
    open(os.path.join(GEN, f"MCT_{name}.cfg"), "w").write("\n".join(tr) + "\n")
    open(os.path.join(GEN, f"MCD_{name}.cfg"), "w").write("\n".join(["SPECIFICATION TSpec"] + cl + ["CONSTRAINT DiagAt", "CHECK_DEADLOCK FALSE"]) + "\n")
    open(os.path.join(GEN, f"MCE_{name}.cfg"), "w").write("\n".join(["SPECIFICATION TSpec"] + cl + ["INVARIANT DiagStop", "CHECK_DEADLOCK FALSE"]) + "\n")


def scen_text(scen):
    lines = []
    for k, v in scen.get("params", {}).items():
        lines.append(f"{k} {v}")
    for t, ops in scen["scripts"].items():
        lines.append(f"thread {t}: " + "; ".join(" ".join(str(x) for x in op) for op in ops))
    return "\n".join(lines)


def setup():
    mods = sorted({json.load(open(p))["module"] for p in glob.glob(os.path.join(ROOT, "scen", "*.json"))
                   if json.load(open(p)).get("kind") == "thread"})
    for m in mods:
        assemble.assemble_thread(m)
        r = subprocess.run(["tla-sany", "Trace" + m + ".tla"], cwd=GEN, capture_output=True, text=True)
        if "Semantic errors" in r.stdout or "Parse Error" in r.stdout or r.returncode != 0:
            print(r.stdout[-3000:])
            raise SystemExit(f"setup: SANY failed for {m}")
        print("setup: module", m, "ok")
