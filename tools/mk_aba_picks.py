#!/usr/bin/env python3
"""Directed ABA schedules for the double-word-CAS scenarios of C20 (scen/*_abadir.json).

  mk_aba_picks.py <scenario> [max_seeds [candidates]]

Searches seeded schedules of the scenario (real code under the controlled scheduler) for an
execution with the classic ABA window on the (counter, head) pair:

   thread A has read counter, head h and h->next (its last read before the CAS), is then
   preempted; other threads change the structure so that head == h again but h->next differs
   (node popped, reused, pushed again); A's compare_and_swap2 fails only because of the counter.

The scheduler decisions of that run (VRT_PICKS_OUT) are cut to the shortest prefix that still
reproduces the execution up to A's CAS and stored as scen/<scenario>.picks.  A scenario
that sets "env": {"VRT_REPLAY": "/verif/scen/<scenario>.picks"} then starts EVERY seeded run
with this prefix (the seed decides the rest).  The file depends on the exact sequence of
scheduling points of the instrumented build: if the runtime or the compiler flags change,
regenerate it with this tool (an out-of-date file only degrades the scenario to an ordinary
seeded one, the checks stay sound).
"""
import json, os, subprocess, sys, tempfile

ROOT = os.path.dirname(os.path.dirname(os.path.abspath(__file__)))
sys.path.insert(0, os.path.join(ROOT, "tools"))
import check, thread_mc, tracecheck  # noqa: E402


def run(binary, scen, seed, picks_in=None, npicks=None, extra=None):
    d = tempfile.mkdtemp(prefix="abapicks_")
    tr, po = os.path.join(d, "t.ndjson"), os.path.join(d, "p.txt")
    env = dict(os.environ, VRT_SEED=str(seed), VRT_TRACE=tr, VRT_PICKS_OUT=po, VRT_SCEN=thread_mc.scen_text(scen))
    env.update(extra or {})
    if picks_in is not None:
        pi = os.path.join(d, "in.txt")
        open(pi, "w").write("\n".join(str(x) for x in picks_in[:npicks]) + "\n")
        env["VRT_REPLAY"] = pi
    subprocess.run([binary], env=env, capture_output=True, timeout=60)
    evs = [json.loads(l) for l in open(tr) if l.strip()]
    picks = [int(x) for x in open(po).read().split()] if os.path.exists(po) else []
    subprocess.run(["rm", "-rf", d])
    return evs, picks


def find_aba(evs):
    """index of the first pop-CAS2 that fails although the head half equals the snapshot, where all
    interference happened after the thread's last read and the successor read is stale; else None"""
    head, cnt, nxt = None, 0, {}
    snap, last, rd = {}, {}, {}
    for i, e in enumerate(evs):
        t, k, a, fn = e.get("t"), e.get("k"), e.get("a", ""), e.get("fn", "")
        if k in ("AL", "VR") and a == "q.counter" and "pop" in fn:
            snap[t] = [cnt, None]
            rd.pop(t, None)
        elif k in ("AL", "VR") and a == "q.head" and t in snap and "pop" in fn:
            snap[t][1] = head
            last[t] = cnt
        elif k in ("VR", "R") and t in snap and "pop" in fn:
            last[t] = cnt
            if a.endswith(".next") and a[:-5] == snap[t][1]:
                rd[t] = nxt.get(a[:-5], "null")
        if (k == "CAS2" and e.get("ok") == 0 and t in snap and snap[t][1] == head and head != "null"
                and last.get(t) == snap[t][0] and t in rd and rd[t] != nxt.get(head, "null")):
            return i
        for w in e.get("w", []):
            if w[0] == "q" and w[1] == "head":
                head = w[2]
            if w[0] == "q" and w[1] == "counter":
                cnt = w[2]
            if w[1] == "next":
                nxt[w[0]] = w[2]
    return None


def strip(evs):
    return [{k: v for k, v in e.items() if k not in ("seed", "policy", "stick", "points", "old")} for e in evs]


def main():
    name = sys.argv[1]
    maxs = int(sys.argv[2]) if len(sys.argv) > 2 else 20000
    scen = check.load_scen(name)
    scen = dict(scen)
    binary = os.path.join(check.build("thread", scen["binary"]), scen["binary"])
    pol = {"VRT_POLICY": "rand", "VRT_STICK": "90"}
    cands, ncand = [], int(sys.argv[3]) if len(sys.argv) > 3 else 12
    for seed in range(1, maxs + 1):
        evs, picks = run(binary, scen, seed, extra=pol)
        k = find_aba(evs)
        if k is None:
            continue
        # robustness against small shifts of the decision sequence (a mutant with one more or one less
        # scheduling point per attempt): the stalled thread's attempt is its first activity, nobody else has
        # failed a CAS before, and the last three events before the stale CAS are steps of another thread
        # that change nothing (slack), so that the interfering operations still complete
        a = evs[k]["t"]
        steps = [e for e in evs[:k] if e.get("k") not in ("api", "begin", "reg", "fence")]
        first_a = [e for e in steps if e.get("t") == a]
        if (any(e.get("k") == "CAS2" and e.get("ok") == 0 for e in steps) or len(first_a) > 4
                or any(e.get("t") == a or e.get("w") for e in steps[-3:])):
            continue
        want = strip(evs[1:k + 1])
        # shortest prefix of the decisions that reproduces the execution up to the CAS under other seeds
        lo, hi = 1, len(picks)

        def ok(n):
            for s2 in (seed + 1000003, seed + 2000003, seed + 3000003):
                e2, _ = run(binary, scen, s2, picks, n)
                if strip(e2[1:k + 1]) != want:
                    return False
            return True
        if not ok(hi):
            continue
        while lo < hi:
            mid = (lo + hi) // 2
            if ok(mid):
                hi = mid
            else:
                lo = mid + 1
        # among the candidates prefer the one in which the stalled thread is preempted EARLIEST after its
        # last read (fewest turns of that thread: scheduling points on its private snapshot are not events)
        turns = sum(1 for x in picks[:hi] if x == int(a[1:]))
        cands.append((turns, hi, seed, k, picks[:hi], evs[k]))
        if len(cands) >= ncand:
            break
    if cands:
        cands.sort(key=lambda c: (c[0], c[1]))
        turns, hi, seed, k, pk, ev = cands[0]
        out = os.path.join(ROOT, "scen", name + ".picks")
        open(out, "w").write("\n".join(str(x) for x in pk) + "\n")
        print(f"{name}: {len(cands)} candidates; seed {seed}: ABA at event {k} ({json.dumps(ev)[:100]}); {hi} decisions, "
              f"{turns} turns of the stalled thread -> {out}")
        return 0
    print("no ABA execution found")
    return 1


if __name__ == "__main__":
    sys.exit(main())
