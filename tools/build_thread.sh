#!/bin/bash
# builds the instrumented libfiber objects + runtime + the thread-regime driver drivers/thr_$DRIVER.c
# (all drivers/thr_*.c when DRIVER is unset) into $OUT
set -e
REPO=${REPO:-/repo}
OUT=${OUT:-$(cd "$(dirname "$0")/.." && pwd)/build/thread}
V=${V:-$(cd "$(dirname "$0")/.." && pwd)}
mkdir -p $OUT/lib
INST="-std=gnu11 -O1 -g -fno-inline -fno-omit-frame-pointer -fsanitize=thread --param tsan-distinguish-volatile=1"
DEFS="-DFIBER_STACK_MALLOC -DFIBER_FAST_SWITCHING -DLIBFIBER_VERIF -DNDEBUG -D_GNU_SOURCE"
INC="-I$REPO/include -I$REPO/src -I$V/vrt -I$V/drivers"
LIBSRC="fiber_context fiber_mutex fiber_semaphore fiber_spinlock fiber_cond fiber fiber_barrier fiber_io fiber_rwlock hazard_pointer work_stealing_deque work_queue fiber_event_native fiber_manager fiber_scheduler_wsd"
pids=()
for f in $LIBSRC; do
  gcc $INST $DEFS $INC -w -c $REPO/src/$f.c -o $OUT/lib/$f.o & pids+=($!)
done
gcc -std=gnu11 -O1 -g -Wall -D_GNU_SOURCE -I$V/vrt -c $V/vrt/vrt.c -o $OUT/vrt.o & pids+=($!)
gcc -std=gnu11 -O1 -g -Wall -D__SANITIZE_THREAD__=1 $DEFS $INC -c $V/drivers/thr_stubs.c -o $OUT/thr_stubs.o & pids+=($!)
for p in "${pids[@]}"; do wait $p; done
pids=()
for src in $V/drivers/thr_*.c; do
  b=$(basename $src .c)
  [ "$b" = "thr_stubs" ] && continue
  [ -n "$DRIVER" ] && [ "$b" != "thr_$DRIVER" ] && continue
  ( gcc $INST $DEFS $INC -Wall -Wno-unused-function -c $src -o $OUT/$b.o && \
    gcc -no-pie -o $OUT/${b#thr_} $OUT/$b.o $OUT/lib/*.o $OUT/vrt.o $OUT/thr_stubs.o -lpthread -ldl \
       -Wl,--wrap=free,--wrap=pthread_create,--wrap=pthread_join ) & pids+=($!)
done
for p in "${pids[@]}"; do wait $p; done
echo built $OUT
