#!/usr/bin/env python3
"""Property C08, part A (IOShim): model-based testing of the descriptor shims of src/fiber_io.c
with spec/IOShim.tla as oracle and generator.  Used by tools/check_c08.py.

 * TLC explores every call sequence up to the bound of a configuration exhaustively (Mode "edges":
   every transition is printed with the action record and its expected result set; the oracle's own
   properties — never EAGAIN in blocking mode, immediate return in non-blocking mode, EBADF for
   invalid descriptors, never empty, data in order — are TLC invariants) and is then the generator:
   an edge cover of the printed graph plus `-simulate` behaviours.
 * drivers/io_exec.c performs every sequence inside a fiber of the real library (ASan build: an
   out-of-bounds access to the fd tables is a crash; -O2 build as shipped), with 1 and 2 kernel
   threads, and once with plain system calls without libfiber (validation of the MODEL against the
   kernel: a disagreement there is an infrastructure error, never a violation).
"""
import concurrent.futures as cf
import hashlib, json, os, random, re, resource, shutil, subprocess, sys, tempfile, time

ROOT = os.path.dirname(os.path.dirname(os.path.abspath(__file__)))
SPEC = os.path.join(ROOT, "spec")

TIERS = {
    "quick": {
        "edges": [("sock4", 500), ("sockall3", 300), ("pipe3", 250), ("listener3", None), ("unconn3", 220),
                  ("invalid2", None), ("mixed2", 250), ("two2", 250)],
        "hist": [("hist8", 8, 300, 150)],
        "tlc_timeout": 600, "t2_fraction": 0.25,
    },
    "thorough": {
        "edges": [("sock5", None), ("sockall4", None), ("pipe4", None), ("listener4", None), ("unconn4", None),
                  ("invalid3", None), ("mixed3", None), ("two3", 6000)],
        "hist": [("hist8", 8, 6000, 3000), ("hist12", 12, 4000, 2000)],
        "tlc_timeout": 3000, "t2_fraction": 1.0,
    },
}


class Infra(Exception):
    pass


def log(*a):
    print(*a, file=sys.stderr, flush=True)


# ------------------------------------------------------------------ TLC
def run_tlc(cfg, extra=None, timeout=600):
    work = tempfile.mkdtemp(prefix="c08tlc_", dir=os.environ.get("TMPDIR", "/tmp"))
    try:
        shutil.copy(os.path.join(SPEC, "IOShim.tla"), work)
        shutil.copy(os.path.join(SPEC, cfg), work)
        cmd = ["tlc", "-workers", "1", "-metadir", os.path.join(work, "meta"), "-config", cfg] + (extra or []) + ["IOShim.tla"]
        outp = os.path.join(work, "out.txt")
        env = dict(os.environ)
        env["JAVA_TOOL_OPTIONS"] = f"-Xmx3g -Djava.io.tmpdir={work}"   # TLC's own scratch directory goes away with `work`
        t0 = time.time()
        for attempt in (1, 2):
            try:
                with open(outp, "w") as fo:
                    r = subprocess.run(cmd, cwd=work, stdout=fo, stderr=subprocess.STDOUT, timeout=timeout, env=env)
                rc = r.returncode
            except subprocess.TimeoutExpired:
                rc = -9
            out = open(outp, errors="replace").read()
            if rc in (0, 12, 13) or "Finished in" in out or "Error:" in out:
                break
            log(f"TLC ended abnormally (rc={rc}) on {cfg}, attempt {attempt}")
            shutil.rmtree(os.path.join(work, "meta"), ignore_errors=True)
        return rc, out, round(time.time() - t0, 1)
    finally:
        shutil.rmtree(work, ignore_errors=True)


def tlc_stats(out):
    st = {}
    m = re.search(r"(\d+) states generated, (\d+) distinct states found", out)
    if m:
        st["generated"], st["distinct"] = int(m.group(1)), int(m.group(2))
    st["violated"] = re.findall(r"Invariant (\w+) is violated", out)
    st["complete"] = "Model checking completed. No error has been found" in out
    return st


def tla_strings(line):
    res, i, n = [], 0, len(line)
    while i < n:
        if line[i] == '"':
            i += 1
            buf = []
            while i < n and line[i] != '"':
                if line[i] == "\\" and i + 1 < n:
                    i += 1
                    buf.append({"n": "\n", "t": "\t"}.get(line[i], line[i]))
                else:
                    buf.append(line[i])
                i += 1
            res.append("".join(buf))
        i += 1
    return res


def gen_edge_cover(name, limit, seed, timeout):
    """exhaustive TLC run of configuration `name`; returns (paths, stats): paths cover every distinct
    (state, action, state') edge of the reachable graph (or a seeded sample of `limit` paths)."""
    cfg = f"IOShim_{name}.cfg"
    rc, out, secs = run_tlc(cfg, timeout=timeout)
    st = tlc_stats(out)
    if st.get("violated"):
        return [], dict(st, cfg=cfg, mode="edges", secs=secs), out
    if not st.get("complete"):
        log(out[-2000:])
        raise Infra(f"TLC edge generation failed ({cfg})")
    inits, edges, outs, seen = [], [], {}, set()
    for line in out.splitlines():
        if line.startswith('<<"EDGE"'):
            s = tla_strings(line)
            if len(s) != 4:
                raise Infra("cannot parse EDGE line")
            key = hashlib.md5(("\0".join(s[1:])).encode()).digest()
            if key in seen:
                continue
            seen.add(key)
            src = hashlib.md5(s[1].encode()).digest()
            dst = hashlib.md5(s[3].encode()).digest()
            outs.setdefault(src, []).append(len(edges))
            edges.append((src, dst, json.loads(s[2])))
        elif line.startswith('<<"INIT"'):
            inits.append(hashlib.md5(tla_strings(line)[1].encode()).digest())
    if not inits or not edges:
        raise Infra("no edges printed by TLC")
    parent, depth, order = {}, {}, []
    for i0 in inits:
        if i0 not in parent:
            parent[i0] = None
            depth[i0] = 0
            order.append(i0)
    for u in order:
        for ei in outs.get(u, []):
            v = edges[ei][1]
            if v not in parent:
                parent[v] = ei
                depth[v] = depth[u] + 1
                order.append(v)
    maxlen = max(depth.values()) + 1
    covered = [False] * len(edges)
    paths = []
    for ei in sorted(range(len(edges)), key=lambda k: -depth.get(edges[k][0], -1)):
        if covered[ei]:
            continue
        if edges[ei][0] not in parent:
            continue  # edge out of a state only reachable beyond the bound: cannot happen
        pre = []
        u = edges[ei][0]
        while parent[u] is not None:
            pre.append(parent[u])
            u = edges[parent[u]][0]
        path = pre[::-1] + [ei]
        u = edges[ei][1]
        while len(path) < maxlen + 2:  # extend through uncovered edges
            nxt = [k for k in outs.get(u, []) if not covered[k] and k not in path]
            if not nxt:
                break
            path.append(nxt[0])
            u = edges[nxt[0]][1]
        for k in path:
            covered[k] = True
        paths.append([edges[k][2] for k in path])
    st.update({"cfg": cfg, "mode": "exhaustive + edge cover", "edges": len(edges), "graph_states": len(parent),
               "paths": len(paths), "secs": secs})
    if limit and len(paths) > limit:
        rnd = random.Random(seed * 1000003 + len(paths))
        # keep every path that contains a blocking expectation or an invalid descriptor first, sample the rest
        rnd.shuffle(paths)
        paths.sort(key=lambda p: -sum((3 if a["op"] == "connect" and a["mode"] != "invalid" else 1) for a in p
                                      if a["cls"] == "block" or a["mode"] in ("invalid", "nonblocking") or a["op"] == "connect"))
        head = paths[: limit // 2]
        rest = paths[limit // 2:]
        rnd.shuffle(rest)
        paths = head + rest[: limit - len(head)]
        st["paths_executed"] = len(paths)
    return paths, st, out


def gen_simulate(name, depth, num, keep, seed, timeout):
    cfg = f"IOShim_{name}.cfg"
    rc, out, secs = run_tlc(cfg, extra=["-simulate", f"num={num}", "-depth", str(depth + 1), "-seed", str(seed)], timeout=timeout)
    viol = re.findall(r"Invariant (\w+) is violated", out)
    seqs, seen = [], set()
    for line in out.splitlines():
        if line.startswith('<<"HIST"'):
            s = tla_strings(line)
            h = hashlib.md5(s[1].encode()).digest()
            if h in seen:
                continue
            seen.add(h)
            seqs.append(json.loads(s[1]))
    if not seqs and not viol:
        log(out[-2000:])
        raise Infra(f"TLC simulation produced no behaviours ({cfg})")
    rnd = random.Random(seed * 7919 + depth)
    rnd.shuffle(seqs)
    seqs.sort(key=lambda q: -sum(1 for a in q if a["t"] == "call" and a["mode"] != "invalid"))
    m = re.search(r"The number of states generated: (\d+)", out)
    st = {"cfg": cfg, "mode": "simulate", "depth": depth, "behaviours": len(seqs), "kept": min(keep, len(seqs)),
          "generated": int(m.group(1)) if m else 0, "violated": viol, "secs": secs}
    return seqs[:keep], st, out


# ------------------------------------------------------------------ behaviour -> executor input
def byte_of(i):
    return 0x41 + i


def hexids(ids):
    return "".join("%02x" % byte_of(i) for i in ids) or "-"


READS = ("read", "readv", "recv", "recvfrom", "recvmsg")
WRITES = ("write", "writev", "send", "sendto", "sendmsg")


def opclass(op):
    return "read" if op in READS else "write" if op in WRITES else op


def init_kinds(seq):
    """kinds of the slots in the initial state, reconstructed from the records (dk = kind at the call)"""
    kinds = {}
    for a in seq:
        if a["d"] not in kinds:
            kinds[a["d"]] = a["dk"]
    return kinds


def concretise(seq, seed, sid, threads, slots_kinds, tcp=False):
    rnd = random.Random(f"{seed}/{sid}")
    hard = resource.getrlimit(resource.RLIMIT_NOFILE)[1]
    if hard == resource.RLIM_INFINITY or hard > (1 << 30):
        hard = 1 << 20
    numbers = {"neg": [-1, -1, -2, -1000, -2147483648], "oor": [2147483647, hard, hard + 1, 1 << 22, 2147483647],
               "never": [777, 999, hard - 1]}
    lines = [f"T {threads}", "F " + ("tcp" if tcp else "unix")]
    for sl in sorted(slots_kinds):
        k = slots_kinds[sl]
        if k in numbers:
            lines.append(f"D {sl} {k} {rnd.choice(numbers[k])}")
        else:
            lines.append(f"D {sl} {k}")
    for a in seq:
        if a["t"] == "env":
            lines.append(f"E {a['op']} {a['d']} {hexids(a['data'])}")
        else:
            hact, hx = a["hact"], hexids(a["hdata"])
            if a["cls"] != "block":  # rescue action so that a wrongly suspended call still ends
                oc = opclass(a["op"])
                if a["mode"] == "invalid":
                    hact, hx = "none", "-"
                elif oc == "read":
                    hact, hx = "pw", "5a"
                elif oc == "write":
                    hact, hx = "drain", "-"
                elif oc == "accept":
                    hact, hx = "pconn", "-"
                else:
                    hact, hx = "none", "-"
            lines.append(f"C {a['op']} {a['d']} {a['req']} {a['dw']} {hact} {hx}")
    lines.append("X")
    return "\n".join(lines) + "\n"


def parse_obs(line):
    parts = line.split()
    d = {"line": parts[0]}
    for p in parts[1:]:
        if "=" in p:
            k, v = p.split("=", 1)
            d[k] = v
    return d


def describe(a):
    if a["t"] == "env":
        return f"[peer] {a['op']}({a['d']}" + (f", {len(a['data'])} bytes" if a["op"] == "pw" else "") + ")"
    v = {0: "0", 1: "O_NONBLOCK", 2: "O_NONBLOCK|O_APPEND", 3: "O_APPEND"}
    op = a["op"]
    if op == "setfl":
        call = f"fcntl({a['d']}, F_SETFL, {v[a['req']]})"
    elif op == "getfl":
        call = f"fcntl({a['d']}, F_GETFL)"
    elif op == "fionbio":
        call = f"ioctl({a['d']}, FIONBIO, {a['req']})"
    elif op in ("close", "accept", "connect"):
        call = f"{op}({a['d']})"
    else:
        call = f"{op}({a['d']}, {'BIG' if a['req'] == 99 else a['req']}" + (", MSG_DONTWAIT" if a["dw"] else "") + ")"
    exp = "/".join(sorted(a["allowed"]))
    how = {"imm": "immediately", "ready": "without help", "block": f"only after the peer does {a['hact']}"}[a["cls"]]
    return f"{call} on {a['dk']} [{a['mode']}] => {exp} {how}"


def compare(seq, rc, out, plain=False):
    """None | ("cut", i) | (sig, description, step index)"""
    lines = [l for l in out.splitlines() if l.strip()]
    obs = [parse_obs(l) for l in lines if l.split()[0] in ("env", "call", "end", "hang", "error")]
    lastmode = {}
    for i, a in enumerate(seq):
        base = {"check": "ioshim", "op": a["op"], "opclass": opclass(a["op"]), "mode": a.get("mode", ""), "dkind": a.get("dk", ""),
                "lastmode": lastmode.get(a["d"], "default"), "cls": a.get("cls", "")}
        if i >= len(obs) or obs[i]["line"] in ("hang", "error"):
            if rc is None or (i < len(obs) and obs[i]["line"] == "hang") or rc == 3:
                return (dict(base, what="hang", got="hang"), f"step {i}: {describe(a)}: the executor hung (no return within the time limit)", i)
            if i < len(obs) and obs[i]["line"] == "error":
                raise Infra(f"executor error: {lines[-1]}")
            how = "asan" if rc == 99 else (f"signal{-rc}" if rc is not None and rc < 0 else f"exit{rc}")
            return (dict(base, what="crash", got="crash:" + how),
                    f"step {i}: {describe(a)}: the process died ({how}) — crash or out-of-bounds access to the descriptor tables", i)
        o = obs[i]
        if a["t"] == "env":
            if o["line"] != "env":
                raise Infra(f"observation {i} out of step: {lines[i]}")
            continue
        if o["line"] != "call" or o["op"] != a["op"]:
            raise Infra(f"observation {i} out of step: {o}")
        got = ("err:" + o["err"]) if o["ret"] == "-1" else ("ok:" + o["ret"])
        if o["ret"] == "hang":
            return (dict(base, what="hang", got="hang"), f"step {i}: {describe(a)}: never became ready after the helper action", i)
        susp, hlp = int(o["susp"]), int(o["help"])
        cls = a["cls"]
        if cls != "block" and hlp:
            what = "blocked"
            return (dict(base, what=what, got=got),
                    f"step {i}: {describe(a)}: the call did not return until another fiber made the descriptor ready "
                    f"(then {got}); the {'non-blocking' if a['mode'] == 'nonblocking' else 'ready'} call must return by itself", i)
        if cls == "imm" and susp and not plain:
            return (dict(base, what="suspended", got=got),
                    f"step {i}: {describe(a)}: the calling fiber was suspended inside a call that must return immediately", i)
        if cls == "block" and not hlp:
            return (dict(base, what="not-blocked", got=got),
                    f"step {i}: {describe(a)}: the blocking-mode call returned {got} instead of suspending the fiber until the descriptor was ready", i)
        if got not in a["allowed"]:
            return (dict(base, what="result", got=got, expected="/".join(sorted(a["allowed"]))),
                    f"step {i}: {describe(a)}: returned {got}", i)
        if cls == "block" and not plain and int(o.get("other", "0")) < 1:
            return (dict(base, what="no-progress", got=got), f"step {i}: {describe(a)}: no other fiber ran while the caller was suspended", i)
        if got != a["chosen"]:
            return ("cut", i)
        if opclass(a["op"]) == "read" and got.startswith("ok:") and got != "ok:0":
            if o["data"] != hexids(a["data"]):
                return (dict(base, what="data", got=o["data"], expected=hexids(a["data"])),
                        f"step {i}: {describe(a)}: delivered bytes {o['data']}, the stream holds {hexids(a['data'])} next", i)
        if a["op"] in ("setfl", "fionbio") and got == "ok:0":
            lastmode[a["d"]] = f"{a['op']}:{a['req']}"
        if a["op"] == "close" and got == "ok:0":
            lastmode.pop(a["d"], None)
    # final observations
    ends = {o["d"]: o for o in obs[len(seq):] if o["line"] == "end"}
    if seq and not ends:
        how = "asan" if rc == 99 else (f"signal{-rc}" if rc is not None and rc < 0 else f"exit{rc}")
        if rc in (None, 3):
            return ({"check": "ioshim", "what": "hang", "got": "hang", "op": "end"}, "the executor hung after the last step", len(seq))
        return ({"check": "ioshim", "what": "crash", "got": "crash:" + how, "op": "end"}, f"the process died after the last step ({how})", len(seq))
    post = seq[-1]["post"] if seq else {}
    for d, o in ends.items():
        if o["out"] != "ok":
            return ({"check": "ioshim", "what": "outdata", "got": o["out"], "op": "end"},
                    f"bytes accepted by write-type calls on {d} did not reach the peer complete/in order/unduplicated: {o}", len(seq))
        if d in post and o["inleft"] != hexids(post[d]) and not (o["inleft"] == "-" and not post[d]):
            return ({"check": "ioshim", "what": "indata", "got": o["inleft"], "expected": hexids(post[d]), "op": "end"},
                    f"unread bytes of {d} at the end: kernel holds {o['inleft']}, the model {hexids(post[d])} (bytes lost or duplicated)", len(seq))
    return None


def execute(binary, text, plain=False, patience_ms=None):
    env = dict(os.environ)
    if patience_ms:
        env["IOEXEC_PATIENCE_MS"] = str(patience_ms)
    env["ASAN_OPTIONS"] = "detect_leaks=0:exitcode=99:abort_on_error=0:allocator_may_return_null=1"
    try:
        r = subprocess.run([binary] + (["--plain"] if plain else []), input=text, capture_output=True, text=True, timeout=25, env=env)
        return r.returncode, r.stdout, r.stderr[-1500:]
    except subprocess.TimeoutExpired as ex:
        o = ex.stdout or ""
        if isinstance(o, bytes):
            o = o.decode(errors="replace")
        return None, o, "timeout"
