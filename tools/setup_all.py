#!/usr/bin/env python3
"""MANIFEST.setup_cmd: translate and SANY-check every module, build the harnesses.
Offline, from files on disk only."""
import glob, json, os, subprocess, sys

ROOT = os.path.dirname(os.path.dirname(os.path.abspath(__file__)))
sys.path.insert(0, os.path.join(ROOT, "tools"))


def main():
    import assemble, check
    mods = sorted({json.load(open(p))["module"] for p in glob.glob(os.path.join(ROOT, "scen", "*.json"))
                   if json.load(open(p)).get("kind", "fiber") == "fiber"})
    for m in mods:
        assemble.assemble(m)
        r = subprocess.run(["tla-sany", "Trace" + m + ".tla"], cwd=assemble.GEN, capture_output=True, text=True)
        if "Semantic errors" in r.stdout or "Parse Error" in r.stdout or r.returncode != 0:
            print(r.stdout[-3000:])
            print("setup: SANY failed for", m)
            return 1
        print("setup: module", m, "ok")
    try:
        import thread_mc
        thread_mc.setup()
    except ImportError:
        pass
    check.build("fiber")
    bins = sorted({json.load(open(p)).get("binary") for p in glob.glob(os.path.join(ROOT, "scen", "*.json"))
                   if json.load(open(p)).get("kind") == "thread"})
    for b in bins:
        check.build("thread", b)
    print("setup: ok")
    return 0


if __name__ == "__main__":
    sys.exit(main())
