#!/usr/bin/env python3
"""MANIFEST.setup_cmd: translate and SANY-check every module used by a registered check,
build the harness binaries. Offline, from files on disk only."""
import glob, json, os, subprocess, sys

ROOT = os.path.dirname(os.path.dirname(os.path.abspath(__file__)))
sys.path.insert(0, os.path.join(ROOT, "tools"))


def main():
    import assemble, check, thread_mc
    from props import CLAIMED
    scens = set()
    for cfg in CLAIMED.values():
        for key in ("mc", "scenarios", "live"):
            for tier in ("quick", "thorough"):
                scens.update(cfg.get(key, {}).get(tier, []))
    fiber_mods, thread_mods, bins = set(), set(), set()
    for s in sorted(scens):
        p = os.path.join(ROOT, "scen", s + ".json")
        if not os.path.exists(p):
            print("setup: WARNING scenario file missing:", s)
            continue
        d = json.load(open(p))
        if d.get("kind", "fiber") == "fiber":
            fiber_mods.add(d["module"])
        else:
            thread_mods.add(d["module"])
            bins.add(d.get("binary"))
    for m in sorted(fiber_mods):
        assemble.assemble(m)
    for m in sorted(thread_mods):
        assemble.assemble_thread(m)
    for m in sorted(fiber_mods | thread_mods):
        r = subprocess.run(["tla-sany", "Trace" + m + ".tla"], cwd=assemble.GEN, capture_output=True, text=True)
        if "Semantic errors" in r.stdout or "Parse Error" in r.stdout or "Fatal errors" in r.stdout or r.returncode != 0:
            print(r.stdout[-3000:])
            print("setup: SANY failed for", m)
            return 1
        print("setup: module", m, "ok")
    check.build("fiber")
    for b in sorted(x for x in bins if x):
        check.build("thread", b)
    for extra in sorted({c.get("setup_cmd") for c in CLAIMED.values() if c.get("setup_cmd")}):
        r = subprocess.run(extra, shell=True, cwd=ROOT)
        if r.returncode != 0:
            print("setup: failed:", extra)
            return 1
    print("setup: ok")
    return 0


if __name__ == "__main__":
    sys.exit(main())
