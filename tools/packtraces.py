#!/usr/bin/env python3
"""pack ndjson trace files into one JSON array-of-arrays for TLC"""
import json, sys
out = sys.argv[1]
traces = []
for p in sys.argv[2:]:
    evs = []
    for line in open(p):
        line = line.strip()
        if not line:
            continue
        e = json.loads(line)
        if "w" not in e:
            e["w"] = []
        if "t" not in e:
            e["t"] = "t0"
        evs.append(e)
    traces.append(evs)
json.dump(traces, open(out, "w"))
