/* fiber-regime driver extension: fiber_sleep / usleep shim with virtual timer ticks (property C09) */
#include <stdint.h>
#include <stdlib.h>
#include <string.h>
#include <unistd.h>
#include "drv_ext.h"
#include "fiber_event.h"
#include "vrt_fiber.h"

extern void vrt_wb_register_sleep(void);
extern int vrt_wb_sleepers_nonempty(void);
static long g_tick_budget;
static int registered;

static int tick_enabled(void) { return g_tick_budget > 0 && vrt_wb_sleepers_nonempty(); }
static void tick_act(void) {
  g_tick_budget--;
  vrt_tick(1);
}
static int s_obj(const char* kind, const char* name, long arg, void** obj) {
  (void)name;
  if (strcmp(kind, "ticks")) return 0;
  g_tick_budget = arg;
  *obj = &g_tick_budget;
  if (!registered) {
    registered = 1;
    vrt_wb_register_sleep();
    vrt_env_action("tick", tick_enabled, tick_act);
  }
  return 1;
}
static int s_op(const char* f, const char* op, const char* a1, const char* a2) {
  if (!strcmp(op, "sleepsu")) {
    /* fiber_sleep(seconds, useconds) with arbitrary arguments (input space of the duration conversion) */
    unsigned long sec = strtoul(a1, NULL, 10), us = strtoul(a2, NULL, 10);
    vrt_api("\"f\":\"%s\",\"ph\":\"call\",\"op\":\"sleepsu\",\"s\":%lu,\"u\":%lu", f, sec, us);
    fiber_sleep((uint32_t)sec, (uint32_t)us);
    vrt_api("\"f\":\"%s\",\"ph\":\"ret\",\"op\":\"sleepsu\",\"s\":%lu,\"u\":%lu", f, sec, us);
    return 1;
  }
  if (!strcmp(op, "advance_s")) {
    /* virtual time jumps: <n> seconds' worth of ticks (n*1000 + 2) expire at once */
    unsigned long sec = strtoul(a1, NULL, 10);
    vrt_api("\"f\":\"%s\",\"ph\":\"call\",\"op\":\"advance_s\",\"n\":%lu", f, sec);
    vrt_tick64((uint64_t)sec * 1000u + 2u);
    vrt_api("\"f\":\"%s\",\"ph\":\"ret\",\"op\":\"advance_s\",\"n\":%lu", f, sec);
    return 1;
  }
  if (strcmp(op, "sleep")) return 0;
  long ms = strtol(a1, NULL, 10);
  vrt_api("\"f\":\"%s\",\"ph\":\"call\",\"op\":\"sleep\",\"n\":%ld", f, ms);
  usleep((useconds_t)(ms * 1000)); /* libfiber's shim -> fiber_sleep(0, ms*1000) */
  vrt_api("\"f\":\"%s\",\"ph\":\"ret\",\"op\":\"sleep\",\"n\":%ld", f, ms);
  return 1;
}
DRV_EXT_REGISTER(sleep, s_op, s_obj, NULL)
