/* io_exec.c — executor for the model-based test of libfiber's descriptor shims
 * (property C08, part A; oracle: /verif/spec/IOShim.tla; driver: tools/check_c08.py).
 *
 * Reads one call sequence from stdin and performs it
 *   - (default) INSIDE a fiber of the real library: the calls `read', `write', ...
 *     resolve to the definitions of src/fiber_io.c linked into this executable;
 *   - (--plain) with raw system calls on really blocking / non-blocking descriptors,
 *     without libfiber: used to validate the MODEL against the kernel.
 * The executor knows nothing about expected results: it prints observations.
 *
 * Input lines:
 *   T <kernel threads>            F unix|tcp  (family of `unconn' slots)
 *   D <slot> <kind> [number]      kinds: sock piper pipew listener unconn unconnr closed never neg oor
 *                                 (unconnr: the address to connect to is bound but nobody listens: refused)
 *   E pw <slot> <hexbytes> | E fill <slot> | E drain <slot> | E pclose <slot> | E pconn <slot>
 *   C <op> <slot> <req> <dontwait> <hact> <hexbytes|->     (hact: pw drain pclose pconn none)
 *   X                             final checks
 * Observation lines:
 *   env op=.. d=.. r=..
 *   call op=.. d=.. ret=<n|fd|fl:..> err=<ENAME|-> data=<hex|-> susp=<0|1> help=<0|1> other=<n>
 *     susp : the calling fiber was seen suspended (WAITING) inside the call
 *     help : the call did not return until the helper fiber performed <hact>
 *     other: steps another fiber of the same kernel thread made while the caller was suspended
 *   end d=.. out=<ok|bad:..> written=<n> received=<n> inleft=<hex|->
 * The harness side (peer ends, fillers, verification) uses raw syscall(2) only.
 */
#ifndef _GNU_SOURCE
#define _GNU_SOURCE
#endif
#include <errno.h>
#include <fcntl.h>
#include <limits.h>
#include <netinet/in.h>
#include <poll.h>
#include <signal.h>
#include <stdarg.h>
#include <stdint.h>
#include <stdio.h>
#include <stdlib.h>
#include <string.h>
#include <sys/ioctl.h>
#include <sys/socket.h>
#include <sys/syscall.h>
#include <sys/uio.h>
#include <sys/un.h>
#include <time.h>
#include <unistd.h>

#include "fiber.h"
#include "fiber_event.h"
#include "fiber_manager.h"

#define BIGREQ (4u << 20)
#define MAXSLOT 4
#define MAXSTEP 64

/* ------------------------------------------------------------------ raw layer */
static long r_read(int fd, void* b, size_t n) { return syscall(SYS_read, fd, b, n); }
static long r_write(int fd, const void* b, size_t n) { return syscall(SYS_write, fd, b, n); }
static long r_close(int fd) { return syscall(SYS_close, fd); }
static long r_fcntl(int fd, int cmd, long a) { return syscall(SYS_fcntl, fd, cmd, a); }
static void out(const char* fmt, ...) {
  char tmp[1200];
  va_list ap;
  va_start(ap, fmt);
  int n = vsnprintf(tmp, sizeof tmp, fmt, ap);
  va_end(ap);
  if (n > (int)sizeof tmp - 1) n = sizeof tmp - 1;
  long off = 0;
  while (off < n) {
    long r = r_write(1, tmp + off, (size_t)(n - off));
    if (r <= 0) break;
    off += r;
  }
}
static void fatal(const char* what) {
  out("error what=%s errno=%d\n", what, errno);
  syscall(SYS_exit_group, 64);
}
static int hi(int fd) { /* move a harness descriptor out of the way of the numbers under test */
  if (fd < 0) return fd;
  long n = r_fcntl(fd, F_DUPFD, 1000);
  if (n < 0) return fd;
  r_close(fd);
  return (int)n;
}
static void set_nb(int fd, int on) {
  long fl = r_fcntl(fd, F_GETFL, 0);
  r_fcntl(fd, F_SETFL, on ? (fl | O_NONBLOCK) : (fl & ~O_NONBLOCK));
}
static const char* ename(int e) {
  static char tmp[16];
  switch (e) {
    case 0: return "-";
    case EBADF: return "EBADF";
    case EAGAIN: return "EAGAIN";
    case EPIPE: return "EPIPE";
    case EINVAL: return "EINVAL";
    case ENOTSOCK: return "ENOTSOCK";
    case EISCONN: return "EISCONN";
    case EINPROGRESS: return "EINPROGRESS";
    case ECONNREFUSED: return "ECONNREFUSED";
    case ECONNRESET: return "ECONNRESET";
    case ENOTCONN: return "ENOTCONN";
    case EFAULT: return "EFAULT";
    case ENOTTY: return "ENOTTY";
    case EINTR: return "EINTR";
    case EALREADY: return "EALREADY";
    case EOPNOTSUPP: return "EOPNOTSUPP";
    default: snprintf(tmp, sizeof tmp, "E%d", e); return tmp;
  }
}
static int unhex(const char* s, unsigned char* b, int cap) {
  int n = 0;
  if (!s || !strcmp(s, "-")) return 0;
  while (s[0] && s[1] && n < cap) {
    unsigned v;
    sscanf(s, "%2x", &v);
    b[n++] = (unsigned char)v;
    s += 2;
  }
  return n;
}
static void hex(const unsigned char* b, long n, char* o, size_t cap) {
  if (n <= 0) {
    snprintf(o, cap, "-");
    return;
  }
  size_t k = 0;
  for (long i = 0; i < n && k + 3 < cap; i++) k += (size_t)snprintf(o + k, cap - k, "%02x", b[i]);
}

/* ------------------------------------------------------------------ slots */
typedef struct {
  char name[8], kind[12];
  int fd, peer, peer_open;
  int cliused;                   /* listener: connections made by the harness */
  int hlisten;                   /* unconn: listener of the harness */
  struct sockaddr_storage addr;  /* address to connect to (listener / unconn) */
  socklen_t alen;
  unsigned long written, received; /* our send direction: bytes accepted by write-type calls / seen by the peer */
  int outbad;
} slot_t;
static slot_t g_s[MAXSLOT];
static int g_ns, g_plain, g_threads = 1, g_tcp;
static unsigned char* g_big;
static unsigned char pat(unsigned long p) { return (unsigned char)((p * 7 + 3) & 0xff); }

static slot_t* slot(const char* n) {
  for (int i = 0; i < g_ns; i++)
    if (!strcmp(g_s[i].name, n)) return &g_s[i];
  fatal("unknown slot");
  return NULL;
}

static int mk_stream_socket(int fam) { /* the way the program under test would */
  if (g_plain) return (int)syscall(SYS_socket, fam, SOCK_STREAM, 0);
  return socket(fam, SOCK_STREAM, 0);
}
static void mk_addr(slot_t* s, int fam, int idx) {
  memset(&s->addr, 0, sizeof s->addr);
  if (fam == AF_UNIX) {
    struct sockaddr_un* u = (struct sockaddr_un*)&s->addr;
    u->sun_family = AF_UNIX;
    int n = snprintf(u->sun_path + 1, sizeof u->sun_path - 1, "ioexec-%d-%d", (int)getpid(), idx);
    s->alen = (socklen_t)(offsetof(struct sockaddr_un, sun_path) + 1 + (size_t)n); /* abstract namespace */
  } else {
    struct sockaddr_in* a = (struct sockaddr_in*)&s->addr;
    a->sin_family = AF_INET;
    a->sin_addr.s_addr = htonl(INADDR_LOOPBACK);
    a->sin_port = 0;
    s->alen = sizeof *a;
  }
}

static void setup_slot(slot_t* s, int idx, long number) {
  s->peer = -1;
  s->hlisten = -1;
  s->peer_open = 0;
  if (!strcmp(s->kind, "sock") || !strcmp(s->kind, "closed")) {
    int sv[2];
    int r = g_plain ? (int)syscall(SYS_socketpair, AF_UNIX, SOCK_STREAM, 0, sv) : socketpair(AF_UNIX, SOCK_STREAM, 0, sv);
    if (r) fatal("socketpair");
    s->fd = sv[0];
    if (!strcmp(s->kind, "closed")) {
      if (g_plain) r_close(sv[0]); else close(sv[0]); /* closed the way a program closes it */
      r_close(sv[1]);
    } else {
      s->peer = hi(sv[1]);
      set_nb(s->peer, 1);
      s->peer_open = 1;
    }
  } else if (!strcmp(s->kind, "piper") || !strcmp(s->kind, "pipew")) {
    int p[2];
    int r = g_plain ? (int)syscall(SYS_pipe2, p, 0) : pipe(p);
    if (r) fatal("pipe");
    int mine = !strcmp(s->kind, "piper") ? p[0] : p[1];
    int other = !strcmp(s->kind, "piper") ? p[1] : p[0];
    s->fd = mine;
    s->peer = hi(other);
    set_nb(s->peer, 1);
    s->peer_open = 1;
  } else if (!strcmp(s->kind, "listener")) {
    s->fd = mk_stream_socket(AF_UNIX);
    if (s->fd < 0) fatal("socket");
    mk_addr(s, AF_UNIX, idx);
    if (syscall(SYS_bind, s->fd, &s->addr, s->alen)) fatal("bind");
    if (syscall(SYS_listen, s->fd, 8)) fatal("listen");
  } else if (!strcmp(s->kind, "unconn") || !strcmp(s->kind, "unconnr")) {
    int fam = g_tcp ? AF_INET : AF_UNIX;
    mk_addr(s, fam, idx);
    s->hlisten = hi((int)syscall(SYS_socket, fam, SOCK_STREAM | SOCK_NONBLOCK, 0));
    if (s->hlisten < 0) fatal("hsocket");
    if (syscall(SYS_bind, s->hlisten, &s->addr, s->alen)) fatal("hbind");
    if (fam == AF_INET) {
      socklen_t l = sizeof s->addr;
      if (syscall(SYS_getsockname, s->hlisten, &s->addr, &l)) fatal("getsockname");
    }
    if (!strcmp(s->kind, "unconn") && syscall(SYS_listen, s->hlisten, 8)) fatal("hlisten");
    s->fd = mk_stream_socket(fam);
    if (s->fd < 0) fatal("socket");
  } else if (!strcmp(s->kind, "never")) {
    s->fd = (int)(number ? number : 777);
    if (r_fcntl(s->fd, F_GETFD, 0) != -1) fatal("never-opened number is open");
  } else if (!strcmp(s->kind, "neg")) {
    s->fd = (int)(number ? number : -1);
  } else if (!strcmp(s->kind, "oor")) {
    s->fd = (int)(number ? number : INT_MAX);
  } else
    fatal("unknown kind");
}

/* ------------------------------------------------------------------ harness actions */
static long peer_drain(slot_t* s) { /* the peer reads everything that is pending and verifies it */
  static unsigned char buf[65536];
  long tot = 0;
  if (s->peer < 0 || !s->peer_open) return 0;
  for (;;) {
    long r = r_read(s->peer, buf, sizeof buf);
    if (r <= 0) break;
    for (long i = 0; i < r; i++)
      if (buf[i] != pat(s->received + (unsigned long)i)) s->outbad = 1;
    s->received += (unsigned long)r;
    tot += r;
  }
  return tot;
}
static long do_fill(slot_t* s) { /* fill OUR send direction with raw non-blocking writes on our descriptor */
  long fl = r_fcntl(s->fd, F_GETFL, 0);
  r_fcntl(s->fd, F_SETFL, fl | O_NONBLOCK);
  long tot = 0;
  static const size_t chunks[] = {65536, 4096, 256, 16, 1};
  for (int ci = 0; ci < 5; ci++) {
    size_t chunk = chunks[ci];
    for (;;) {
      for (size_t i = 0; i < chunk; i++) g_big[i] = pat(s->written + i);
      long r = r_write(s->fd, g_big, chunk);
      if (r <= 0) break;
      s->written += (unsigned long)r;
      tot += r;
    }
  }
  r_fcntl(s->fd, F_SETFL, fl);
  return tot;
}
static long env_action(const char* op, slot_t* s, const unsigned char* data, int dlen) {
  if (!strcmp(op, "pw")) return r_write(s->peer, data, (size_t)dlen);
  if (!strcmp(op, "fill")) return do_fill(s);
  if (!strcmp(op, "drain")) return peer_drain(s);
  if (!strcmp(op, "pclose")) {
    long n = peer_drain(s);
    r_close(s->peer);
    s->peer_open = 0;
    return n;
  }
  if (!strcmp(op, "pkill")) { /* the peer vanishes without reading what is pending for it */
    r_close(s->peer);
    s->peer_open = 0;
    return 0;
  }
  if (!strcmp(op, "pconn")) {
    int c = hi((int)syscall(SYS_socket, AF_UNIX, SOCK_STREAM | SOCK_NONBLOCK, 0));
    if (c < 0) fatal("client socket");
    s->cliused++;
    return syscall(SYS_connect, c, &s->addr, s->alen);
  }
  if (!strcmp(op, "none")) return 0;
  fatal("unknown env action");
  return -1;
}

/* errno is per kernel thread and a fiber may resume on another thread inside a call: never let the
   compiler reuse the address of errno across the call */
static __attribute__((noinline)) void clear_errno(void) { errno = 0; }
static __attribute__((noinline)) int fetch_errno(void) { return errno; }

/* ------------------------------------------------------------------ the calls under test */
typedef struct {
  char op[12];
  slot_t* s;
  long req;
  int dw;
  char hact[8];
  unsigned char hdata[8];
  int hlen;
  /* observations */
  long ret;
  int err;
  unsigned char data[8];
  int dlen;
  char retstr[48];
} call_t;

static void prep_out(slot_t* s, size_t n) {
  for (size_t i = 0; i < n; i++) g_big[i] = pat(s->written + i);
}
static void do_call(call_t* c) {
  slot_t* s = c->s;
  int fd = s->fd, P = g_plain;
  int fl = c->dw ? MSG_DONTWAIT : 0;
  size_t n = c->req == 99 ? BIGREQ : (size_t)c->req;
  long r = -1;
  struct iovec iv[2];
  struct msghdr mh;
  memset(&mh, 0, sizeof mh);
  c->dlen = 0;
  clear_errno();
  const char* op = c->op;
  if (!strcmp(op, "read")) r = P ? r_read(fd, c->data, n) : read(fd, c->data, n);
  else if (!strcmp(op, "readv")) {
    iv[0] = (struct iovec){c->data, 1};
    iv[1] = (struct iovec){c->data + 1, 1};
    r = P ? syscall(SYS_readv, fd, iv, 2) : readv(fd, iv, 2);
  } else if (!strcmp(op, "recv")) r = P ? syscall(SYS_recvfrom, fd, c->data, n, fl, NULL, NULL) : recv(fd, c->data, n, fl);
  else if (!strcmp(op, "recvfrom")) r = P ? syscall(SYS_recvfrom, fd, c->data, n, fl, NULL, NULL) : recvfrom(fd, c->data, n, fl, NULL, NULL);
  else if (!strcmp(op, "recvmsg")) {
    iv[0] = (struct iovec){c->data, n};
    mh.msg_iov = iv;
    mh.msg_iovlen = 1;
    r = P ? syscall(SYS_recvmsg, fd, &mh, fl) : recvmsg(fd, &mh, fl);
  } else if (!strcmp(op, "write")) { prep_out(s, n); r = P ? r_write(fd, g_big, n) : write(fd, g_big, n); }
  else if (!strcmp(op, "writev")) {
    prep_out(s, 2);
    iv[0] = (struct iovec){g_big, 1};
    iv[1] = (struct iovec){g_big + 1, 1};
    r = P ? syscall(SYS_writev, fd, iv, 2) : writev(fd, iv, 2);
  } else if (!strcmp(op, "send")) { prep_out(s, n); r = P ? syscall(SYS_sendto, fd, g_big, n, fl, NULL, 0) : send(fd, g_big, n, fl); }
  else if (!strcmp(op, "sendto")) { prep_out(s, n); r = P ? syscall(SYS_sendto, fd, g_big, n, fl, NULL, 0) : sendto(fd, g_big, n, fl, NULL, 0); }
  else if (!strcmp(op, "sendmsg")) {
    prep_out(s, n);
    iv[0] = (struct iovec){g_big, n};
    mh.msg_iov = iv;
    mh.msg_iovlen = 1;
    r = P ? syscall(SYS_sendmsg, fd, &mh, fl) : sendmsg(fd, &mh, fl);
  } else if (!strcmp(op, "setfl")) {
    static const long v[4] = {0, O_NONBLOCK, O_NONBLOCK | O_APPEND, O_APPEND};
    r = P ? r_fcntl(fd, F_SETFL, v[c->req & 3]) : fcntl(fd, F_SETFL, v[c->req & 3]);
  } else if (!strcmp(op, "getfl")) r = P ? r_fcntl(fd, F_GETFL, 0) : fcntl(fd, F_GETFL, 0);
  else if (!strcmp(op, "fionbio")) {
    int on = (int)c->req;
    r = P ? syscall(SYS_ioctl, fd, FIONBIO, &on) : ioctl(fd, FIONBIO, &on);
  } else if (!strcmp(op, "close")) r = P ? r_close(fd) : close(fd);
  else if (!strcmp(op, "accept")) r = P ? syscall(SYS_accept, fd, NULL, NULL) : accept(fd, NULL, NULL);
  else if (!strcmp(op, "connect")) r = P ? syscall(SYS_connect, fd, &s->addr, s->alen) : connect(fd, (struct sockaddr*)&s->addr, s->alen);
  else fatal("unknown call");
  c->err = r < 0 ? fetch_errno() : 0;
  c->ret = r;
  /* bookkeeping that only uses the call's own claim */
  if (r > 0 && (!strncmp(op, "read", 4) || !strncmp(op, "recv", 4))) c->dlen = r > 8 ? 8 : (int)r;
  if (r > 0 && (!strncmp(op, "write", 5) || !strncmp(op, "send", 4))) s->written += (unsigned long)r;
  if (r < 0) snprintf(c->retstr, sizeof c->retstr, "-1");
  else if (!strcmp(op, "accept")) {
    snprintf(c->retstr, sizeof c->retstr, "fd");
    if (P) r_close((int)r); else close((int)r); /* closed the way a program closes it */
  } else if (!strcmp(op, "getfl")) {
    int acc = (int)r & O_ACCMODE;
    snprintf(c->retstr, sizeof c->retstr, "%s%s%s", acc == O_RDONLY ? "RDONLY" : acc == O_WRONLY ? "WRONLY" : "RDWR",
             (r & O_APPEND) ? "|APPEND" : "", (r & O_NONBLOCK) ? "|NONBLOCK" : "");
  } else if ((size_t)r == BIGREQ && c->req == 99) snprintf(c->retstr, sizeof c->retstr, "all");
  else if (c->req == 99 && r > 0 && (!strncmp(op, "write", 5) || !strncmp(op, "send", 4))) snprintf(c->retstr, sizeof c->retstr, "short");
  else snprintf(c->retstr, sizeof c->retstr, "%ld", r);
  if (!strcmp(op, "connect") && (r == 0 || c->err == EINPROGRESS) && s->hlisten >= 0 && s->peer < 0) {
    /* the harness accepts and becomes the peer */
    for (int i = 0; i < 200 && s->peer < 0; i++) {
      long a = syscall(SYS_accept4, s->hlisten, NULL, NULL, SOCK_NONBLOCK);
      if (a >= 0) {
        s->peer = hi((int)a);
        s->peer_open = 1;
      } else {
        struct pollfd p = {s->hlisten, POLLIN, 0};
        syscall(SYS_poll, &p, 1, 5);
      }
    }
  }
}

/* ------------------------------------------------------------------ fiber mode: caller + helper */
static fiber_t* volatile g_caller;
static volatile int g_call_started, g_call_returned, g_susp, g_help;
static volatile long g_other;
static call_t* volatile g_cur;
static long g_patience_ms = 30;

static void* helper_fn(void* p) {
  (void)p;
  for (;;) {
    if (g_call_returned) break;
    if (g_call_started && g_caller->state == FIBER_STATE_WAITING && !g_call_returned) {
      /* the caller is suspended inside the call and this fiber runs: other fibers keep running */
      g_susp = 1;
      /* let the event loop deliver what is deliverable: with one kernel thread a fixed number of poll rounds is
         exact; with more, another thread may be the one that receives the event, so be patient for a while */
      struct timespec t0, t1, nap = {0, 200000};
      clock_gettime(CLOCK_MONOTONIC, &t0);
      for (int r = 0; !g_call_returned; r++) {
        g_other++;
        fiber_poll_events();
        fiber_yield();
        if (g_threads == 1) {
          if (r >= 5) break;
        } else {
          syscall(SYS_nanosleep, &nap, NULL);
          clock_gettime(CLOCK_MONOTONIC, &t1);
          if ((t1.tv_sec - t0.tv_sec) * 1000 + (t1.tv_nsec - t0.tv_nsec) / 1000000 > g_patience_ms) break;
        }
      }
      if (!g_call_returned) {
        g_help = 1;
        call_t* c = g_cur;
        env_action(c->hact, c->s, c->hdata, c->hlen);
      }
      break;
    }
    fiber_yield();
  }
  return NULL;
}

static void print_call(call_t* c) {
  char hx[24];
  hex(c->data, c->dlen, hx, sizeof hx);
  out("call op=%s d=%s ret=%s err=%s data=%s susp=%d help=%d other=%ld\n", c->op, c->s->name, c->retstr, ename(c->err), hx,
      g_susp, g_help, g_other);
}

static void run_call_fiber(call_t* c) {
  g_cur = c;
  g_call_started = g_call_returned = g_susp = g_help = 0;
  g_other = 0;
  fiber_t* h = fiber_create(128 * 1024, helper_fn, NULL);
  __atomic_store_n(&g_call_started, 1, __ATOMIC_SEQ_CST);
  do_call(c);
  __atomic_store_n(&g_call_returned, 1, __ATOMIC_SEQ_CST);
  fiber_join(h, NULL);
  /* harness normalisation: the model abstracts "a transfer larger than the buffer was cut short" to "the
     send direction is full"; with several kernel threads the draining helper may have overlapped the write */
  if (c->req == 99 && c->ret > 0 && c->s->peer_open && (!strncmp(c->op, "write", 5) || !strncmp(c->op, "send", 4))) do_fill(c->s);
  print_call(c);
}

/* plain mode: would the call block?  decided by poll(2) on the really blocking descriptor */
static void run_call_plain(call_t* c) {
  g_susp = g_help = 0;
  g_other = 0;
  const char* op = c->op;
  int rd = !strncmp(op, "read", 4) || !strncmp(op, "recv", 4) || (!strcmp(op, "accept") && !strcmp(c->s->kind, "listener"));
  int wr = !strncmp(op, "write", 5) || !strncmp(op, "send", 4);
  long fl = r_fcntl(c->s->fd, F_GETFL, 0);
  if ((rd || wr) && fl >= 0 && !(fl & O_NONBLOCK) && !c->dw) {
    struct pollfd p = {c->s->fd, (short)(rd ? POLLIN : POLLOUT), 0};
    long pr = syscall(SYS_poll, &p, 1, 0);
    if (pr == 0) { /* the plain blocking call would sleep here until somebody acts */
      g_susp = g_help = 1;
      env_action(c->hact, c->s, c->hdata, c->hlen);
      pr = syscall(SYS_poll, &p, 1, 1000);
      if (pr == 0) {
        out("call op=%s d=%s ret=hang err=- data=- susp=1 help=1 other=0\n", c->op, c->s->name);
        return;
      }
    }
  }
  /* a really blocking write of more than the buffer holds would sleep until everything is written; the
     statement allows the short transfer, so the reference run takes what fits */
  int big = wr && c->req == 99 && fl >= 0 && !(fl & O_NONBLOCK);
  if (big) r_fcntl(c->s->fd, F_SETFL, fl | O_NONBLOCK);
  do_call(c);
  if (big) r_fcntl(c->s->fd, F_SETFL, fl);
  print_call(c);
}

/* ------------------------------------------------------------------ script */
typedef struct {
  char t;
  char op[12], sl[8], hact[8], hx[24];
  long req;
  int dw;
} step_t;
static step_t g_steps[MAXSTEP];
static int g_nsteps;
static volatile int g_stepno;

static void on_alarm(int sig) {
  (void)sig;
  out("hang step=%d\n", g_stepno);
  syscall(SYS_exit_group, 3);
}

static void* run_script(void* p) {
  (void)p;
  if (!g_plain) g_caller = fiber_manager_get()->current_fiber;
  for (int i = 0; i < g_nsteps; i++) {
    step_t* st = &g_steps[i];
    g_stepno = i;
    if (st->t == 'E') {
      unsigned char d[8];
      int n = unhex(st->hx, d, 8);
      long r = env_action(st->op, slot(st->sl), d, n);
      out("env op=%s d=%s r=%ld\n", st->op, st->sl, r);
    } else if (st->t == 'C') {
      call_t c;
      memset(&c, 0, sizeof c);
      snprintf(c.op, sizeof c.op, "%s", st->op);
      c.s = slot(st->sl);
      c.req = st->req;
      c.dw = st->dw;
      snprintf(c.hact, sizeof c.hact, "%s", st->hact);
      c.hlen = unhex(st->hx, c.hdata, 8);
      if (g_plain) run_call_plain(&c); else run_call_fiber(&c);
    } else if (st->t == 'X') {
      for (int k = 0; k < g_ns; k++) {
        slot_t* s = &g_s[k];
        char hx[40] = "-";
        int valid = r_fcntl(s->fd, F_GETFD, 0) != -1;
        if (valid && s->peer >= 0 && (!strcmp(s->kind, "sock") || !strcmp(s->kind, "piper") || !strcmp(s->kind, "unconn"))) {
          unsigned char b[16];
          set_nb(s->fd, 1);
          long r = r_read(s->fd, b, sizeof b);
          hex(b, r, hx, sizeof hx);
        }
        peer_drain(s);
        out("end d=%s out=%s written=%lu received=%lu inleft=%s\n", s->name,
            s->outbad ? "bad:content" : (s->peer_open && s->written != s->received) ? "bad:count" : "ok", s->written,
            s->received, hx);
      }
    }
  }
  return NULL;
}

int main(int argc, char** argv) {
  g_plain = argc > 1 && !strcmp(argv[1], "--plain");
  if (getenv("IOEXEC_PATIENCE_MS")) g_patience_ms = atol(getenv("IOEXEC_PATIENCE_MS"));
  signal(SIGPIPE, SIG_IGN);
  signal(SIGALRM, on_alarm);
  alarm(10);
  g_big = malloc(BIGREQ + 65536);
  char line[256];
  typedef struct { char sl[8], kind[12]; long num; } dd_t;
  dd_t dd[MAXSLOT];
  int ndd = 0;
  while (fgets(line, sizeof line, stdin)) {
    char a[16] = "", b[16] = "", c[16] = "", d[32] = "", e[16] = "", f[32] = "";
    if (line[0] == 'T') sscanf(line, "T %d", &g_threads);
    else if (line[0] == 'F') g_tcp = strstr(line, "tcp") != NULL;
    else if (line[0] == 'D') {
      dd[ndd].num = 0;
      sscanf(line, "D %7s %11s %ld", dd[ndd].sl, dd[ndd].kind, &dd[ndd].num);
      ndd++;
    } else if (line[0] == 'E') {
      step_t* st = &g_steps[g_nsteps++];
      memset(st, 0, sizeof *st);
      st->t = 'E';
      snprintf(st->hx, sizeof st->hx, "-");
      sscanf(line, "E %11s %7s %23s", st->op, st->sl, st->hx);
    } else if (line[0] == 'C') {
      step_t* st = &g_steps[g_nsteps++];
      memset(st, 0, sizeof *st);
      st->t = 'C';
      sscanf(line, "C %15s %15s %15s %31s %15s %31s", a, b, c, d, e, f);
      snprintf(st->op, sizeof st->op, "%s", a);
      snprintf(st->sl, sizeof st->sl, "%s", b);
      st->req = atol(c);
      st->dw = atoi(d);
      snprintf(st->hact, sizeof st->hact, "%s", e[0] ? e : "none");
      snprintf(st->hx, sizeof st->hx, "%s", f[0] ? f : "-");
    } else if (line[0] == 'X') {
      g_steps[g_nsteps++].t = 'X';
    }
    if (g_nsteps >= MAXSTEP - 1) break;
  }
  if (!g_plain) {
    if (fiber_manager_init((size_t)g_threads) != FIBER_SUCCESS) fatal("fiber_manager_init");
  }
  /* valid kinds first, `closed' last so that its number is not handed out again during setup */
  for (int pass = 0; pass < 2; pass++)
    for (int i = 0; i < ndd; i++) {
      int closed = !strcmp(dd[i].kind, "closed");
      if (closed != pass) continue;
      slot_t* s = &g_s[g_ns];
      memset(s, 0, sizeof *s);
      snprintf(s->name, sizeof s->name, "%s", dd[i].sl);
      snprintf(s->kind, sizeof s->kind, "%s", dd[i].kind);
      setup_slot(s, g_ns, dd[i].num);
      g_ns++;
      out("slot d=%s kind=%s fd=%d\n", s->name, s->kind, s->fd);
    }
  if (g_plain) {
    run_script(NULL);
  } else {
    fiber_t* f = fiber_create(256 * 1024, run_script, NULL);
    fiber_join(f, NULL);
  }
  out("done\n");
  syscall(SYS_exit_group, 0);
  return 0;
}
