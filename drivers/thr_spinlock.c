/* thread-regime driver for src/fiber_spinlock.c (property C18)
 *
 * ops:  lock | trylock | unlock      ("unlock" only if this thread holds the lock)
 * params:  mod <M>    counters are rendered modulo M (power of two; the model's modulus)
 *          init <v>   initial value of state.counters.ticket and .users (32 bit,
 *                     e.g. 4294967294 so that the run crosses the 32-bit wrap)
 *
 * Projection: object "L", fields "ticket" and "users" = real 32-bit value mod M.
 * M divides 2^32, so `mod M` commutes with the real (wrapping) increments; see
 * spec/thread/Spinlock.tla.in.  The raw values are additionally written as notes
 * ("raw_ticket", "raw_users") at every API return for the human reader.
 *
 * fiber_spinlock_lock() executes `fiber_manager_get()->spin_count += 1` in its spin
 * loop; fiber_manager_get() returns the static thread-local `fiber_the_manager` of
 * fiber_manager.c, which is NULL in a plain pthread.  The driver gives every thread a
 * dummy calloc'ed fiber_manager_t: it finds the TLS symbol in the executable's symbol
 * table and resolves the calling thread's instance with __tls_get_addr (module 1 = the
 * executable).  The result is verified through fiber_manager_get() before use.
 */
#include <elf.h>
#include <fcntl.h>
#include <sys/mman.h>
#include <sys/stat.h>
#include <sys/syscall.h>
#include <unistd.h>

#include "fiber_manager.h"
#include "fiber_spinlock.h"
#include "thr_common.h"

static fiber_spinlock_t L;
static uint32_t g_mod = 4;
static __thread int have;
static __thread int mgr_set;

/* ------------------------------------------------------------------ thread-local manager */
typedef struct {
  unsigned long ti_module, ti_offset;
} drv_tls_index;
extern void* __tls_get_addr(drv_tls_index*);
static long tls_off = -1;

static void find_tls_symbol(const char* want) {
  int fd = open("/proc/self/exe", O_RDONLY);
  struct stat st;
  if (fd < 0 || fstat(fd, &st)) return;
  char* m = mmap(NULL, (size_t)st.st_size, PROT_READ, MAP_PRIVATE, fd, 0);
  if (m == MAP_FAILED) return;
  Elf64_Ehdr* eh = (Elf64_Ehdr*)m;
  Elf64_Shdr* sh = (Elf64_Shdr*)(m + eh->e_shoff);
  for (int i = 0; i < eh->e_shnum; i++) {
    if (sh[i].sh_type != SHT_SYMTAB) continue;
    Elf64_Sym* sy = (Elf64_Sym*)(m + sh[i].sh_offset);
    int n = (int)(sh[i].sh_size / sizeof(Elf64_Sym));
    const char* str = m + sh[sh[i].sh_link].sh_offset;
    for (int j = 0; j < n; j++)
      if (ELF64_ST_TYPE(sy[j].st_info) == STT_TLS && !strcmp(str + sy[j].st_name, want)) tls_off = (long)sy[j].st_value;
  }
  munmap(m, (size_t)st.st_size);
  syscall(SYS_close, fd);
}
static void set_manager(void) {
  if (mgr_set) return;
  mgr_set = 1;
  if (tls_off < 0) {
    fprintf(stderr, "thr_spinlock: TLS symbol fiber_the_manager not found\n");
    exit(64);
  }
  drv_tls_index ti = {1, (unsigned long)tls_off};
  fiber_manager_t** slot = __tls_get_addr(&ti);
  fiber_manager_t* dummy = calloc(1, sizeof(fiber_manager_t));
  *slot = dummy;
  if (fiber_manager_get() != dummy) {
    fprintf(stderr, "thr_spinlock: could not install the thread-local fiber manager\n");
    exit(64);
  }
}

/* ------------------------------------------------------------------ projection */
static void dec_ticket(const void* base, char* out, size_t cap) {
  const fiber_spinlock_t* l = base;
  snprintf(out, cap, "%u", (unsigned)(__atomic_load_n((const uint32_t*)&l->state.counters.ticket, __ATOMIC_RELAXED) % g_mod));
}
static void dec_users(const void* base, char* out, size_t cap) {
  const fiber_spinlock_t* l = base;
  snprintf(out, cap, "%u", (unsigned)(__atomic_load_n((const uint32_t*)&l->state.counters.users, __ATOMIC_RELAXED) % g_mod));
}
static void raw_note(void) {
  vrt_nosched_begin(); /* the driver is instrumented too: reading the counters must not be a scheduling point */
  vrt_note("\"raw_ticket\":%u,\"raw_users\":%u",
           (unsigned)__atomic_load_n((const uint32_t*)&L.state.counters.ticket, __ATOMIC_RELAXED),
           (unsigned)__atomic_load_n((const uint32_t*)&L.state.counters.users, __ATOMIC_RELAXED));
  vrt_nosched_end();
}

static void drv_setup(void) {
  find_tls_symbol("fiber_the_manager");
  fiber_spinlock_init(&L);
  const char* m = t_param("mod");
  if (m) g_mod = (uint32_t)strtoul(m, NULL, 0);
  if (!g_mod || (g_mod & (g_mod - 1))) {
    fprintf(stderr, "thr_spinlock: mod must be a power of two\n");
    exit(64);
  }
  const char* iv = t_param("init");
  uint32_t init = iv ? (uint32_t)strtoul(iv, NULL, 0) : 0;
  /* both counters start at `init`: the lock is free, the next ticket is `init` */
  L.state.counters.ticket = init;
  L.state.counters.users = init;
  static const vrt_field_t lf[] = {
      {"ticket", offsetof(fiber_spinlock_t, state.counters.ticket), 4, VD_CUSTOM, 0, dec_ticket},
      {"users", offsetof(fiber_spinlock_t, state.counters.users), 4, VD_CUSTOM, 0, dec_users},
  };
  vrt_reg_obj("L", &L, sizeof L, lf, 2);
}

static void drv_op(int tid, const char* op, const char* a1, const char* a2, const char* a3) {
  (void)a1;
  (void)a2;
  (void)a3;
  set_manager();
  if (!strcmp(op, "lock")) {
    vrt_api("\"f\":\"t%d\",\"ph\":\"call\",\"op\":\"lock\",\"o\":\"L\"", tid);
    int r = fiber_spinlock_lock(&L);
    have = 1;
    vrt_api("\"f\":\"t%d\",\"ph\":\"ret\",\"op\":\"lock\",\"o\":\"L\",\"r\":%d", tid, r == FIBER_SUCCESS);
    raw_note();
  } else if (!strcmp(op, "trylock")) {
    vrt_api("\"f\":\"t%d\",\"ph\":\"call\",\"op\":\"trylock\",\"o\":\"L\"", tid);
    int r = fiber_spinlock_trylock(&L);
    have = r == FIBER_SUCCESS;
    vrt_api("\"f\":\"t%d\",\"ph\":\"ret\",\"op\":\"trylock\",\"o\":\"L\",\"r\":%d", tid, have);
    raw_note();
  } else if (!strcmp(op, "unlock")) {
    if (!have) return;
    vrt_api("\"f\":\"t%d\",\"ph\":\"call\",\"op\":\"unlock\",\"o\":\"L\"", tid);
    fiber_spinlock_unlock(&L);
    have = 0;
    vrt_api("\"f\":\"t%d\",\"ph\":\"ret\",\"op\":\"unlock\",\"o\":\"L\"", tid);
    raw_note();
  } else {
    fprintf(stderr, "unknown op %s\n", op);
    exit(64);
  }
}
