/* fiber-regime driver extension: shimmed descriptor I/O on top of fiber_wait_for_event /
 * fiber_poll_events_internal / fiber_fd_closed (property C08, part B; model spec/mod/IOWait.mod).
 *
 * objects:  sockpair p1        AF_UNIX stream socketpair made through libfiber's socketpair(): fds p1a, p1b (unit 1 byte)
 *           pipe q1 <slots>    pipe made through libfiber's pipe(), capacity <slots> pages: fds q1r, q1w (unit 4096 bytes)
 *           listener l1        listening AF_UNIX stream socket made through libfiber's socket()
 * ops:      rd <fd> <n>        ONE read() of n units          wr <fd> <n>     ONE write() of n units
 *           rdall <fd> <n>     read() until n units arrived   wrall <fd> <n>  write() until n units are accepted
 *           close <fd>         close()                        accept <l>      accept() (the new socket is closed at once)
 *           conn <l>           a client of the harness connects (raw system calls)
 * A unit is stamped with its number in the stream (mod 8) so that API records carry the data.
 * Records: api call/ret around every libfiber call; "sys" records for every real system call the shim and the
 * event engine make (vrt/wrap_io.c, vrt/wrap_event_io.c) so that the model's abstract kernel follows the real one.
 */
#ifndef _GNU_SOURCE
#define _GNU_SOURCE
#endif
#include <errno.h>
#include <fcntl.h>
#include <stdarg.h>
#include <stdio.h>
#include <stdlib.h>
#include <string.h>
#include <sys/epoll.h>
#include <sys/socket.h>
#include <sys/syscall.h>
#include <sys/un.h>
#include <unistd.h>
#include "drv_ext.h"
#include "fiber.h"
#include "vrt_fiber.h"

/* white-box functions of vrt/wrap_event_io.c and vrt/wrap_io.c (tools/build_fiber_io.sh).  Weak: the plain
   tools/build_fiber.sh links this file too (all drivers/ext_*.c) but without those wrappers; the I/O scenarios
   then refuse to run instead of breaking the link. */
extern void vrt_wb_register_io(const char* name, int fd) __attribute__((weak));
extern void vrt_wb_register_ioflags(const char* name, int fd) __attribute__((weak));
extern void vrt_wb_io_hook(void) __attribute__((weak));
extern int vrt_wb_io_nwaiters(int fd) __attribute__((weak));
extern void vrt_emit_raw(const char* fmt, ...);

#define UNIT_PIPE 4096
typedef struct {
  char name[16];
  int fd;
  int unit;
  unsigned long wcount; /* units written into this end so far */
  int listener;
  volatile int closing; /* a close() of this descriptor has been started by the script */
  struct sockaddr_un addr;
  socklen_t alen;
} iofd_t;
static iofd_t g_fd[16];
static int g_nfd, g_hooked;

static iofd_t* by_name(const char* n) {
  for (int i = 0; i < g_nfd; i++)
    if (!strcmp(g_fd[i].name, n)) return &g_fd[i];
  fprintf(stderr, "ext_io: unknown descriptor %s\n", n);
  exit(64);
}
static iofd_t* by_fd(int fd) {
  for (int i = 0; i < g_nfd; i++)
    if (g_fd[i].fd == fd) return &g_fd[i];
  return NULL;
}
static iofd_t* add_fd(const char* base, const char* suffix, int fd, int unit) {
  iofd_t* d = &g_fd[g_nfd++];
  memset(d, 0, sizeof *d);
  snprintf(d->name, sizeof d->name, "%s%s", base, suffix);
  d->fd = fd;
  d->unit = unit;
  vrt_wb_register_io(d->name, fd);
  vrt_wb_register_ioflags(d->name, fd);
  return d;
}
static const char* ename(int e) {
  static __thread char tmp[16];
  switch (e) {
    case 0: return "";
    case EAGAIN: return "EAGAIN";
    case EBADF: return "EBADF";
    case EPIPE: return "EPIPE";
    case ECONNRESET: return "ECONNRESET";
    case EINVAL: return "EINVAL";
    default: snprintf(tmp, sizeof tmp, "E%d", e); return tmp;
  }
}
/* errno lives in the kernel thread; a fiber may resume on another one inside a call */
static __attribute__((noinline)) int fetch_errno(void) { return errno; }
static __attribute__((noinline)) void clear_errno(void) { errno = 0; }

/* ------------------------------------------------------------------ "sys" records */
static void sys_record(const char* fmt, ...) {
  char tmp[512];
  va_list ap;
  va_start(ap, fmt);
  vsnprintf(tmp, sizeof tmp, fmt, ap);
  va_end(ap);
  vrt_note("\"sys\":1"); /* closes the running step first: its memory effects precede the system call */
  vrt_emit_raw("\"k\":\"sys\",%s", tmp);
  vrt_progress(); /* kernel state changed: idle pollers must look again */
}
static void ids_of(const iofd_t* d, const void* buf, long units, char* out, size_t cap) {
  size_t k = 0;
  for (long i = 0; i < units && k + 2 < cap; i++) out[k++] = (char)('0' + (((const unsigned char*)buf)[i * d->unit] & 7));
  out[k] = 0;
}
void vrt_io_sys_rw(const char* op, int fd, long req, long ret, int err, const void* buf) {
  iofd_t* d = by_fd(fd);
  if (!d) return;
  char v[40] = "";
  if (ret > 0) ids_of(d, buf, ret / d->unit, v, sizeof v);
  if (ret > 0 && ret % d->unit) vrt_note("\"warn\":\"fraction of a unit transferred\",\"ret\":%ld", ret);
  sys_record("\"op\":\"%s\",\"o\":\"%s\",\"n\":%ld,\"r\":%ld,\"e\":\"%s\",\"v\":\"%s\"", op, d->name, req / d->unit,
             ret >= 0 ? ret / d->unit : -1, ret < 0 ? ename(err) : "", v);
}
void vrt_io_sys_simple(const char* op, int fd, long ret, int err) {
  iofd_t* d = by_fd(fd);
  if (!d) return;
  sys_record("\"op\":\"%s\",\"o\":\"%s\",\"n\":0,\"r\":%d,\"e\":\"%s\",\"v\":\"\"", op, d->name, ret >= 0 ? 1 : -1,
             ret < 0 ? ename(err) : "");
  /* the name stays attached to the number: calls that race with the close still refer to it */
}
static int evbits(unsigned e) { return ((e & EPOLLIN) ? 1 : 0) | ((e & EPOLLOUT) ? 4 : 0); }
int vrt_io_epoll_ctl(int epfd, int op, int fd, struct epoll_event* ev) {
  int r = (int)syscall(SYS_epoll_ctl, epfd, op, fd, ev);
  int e = errno;
  iofd_t* d = by_fd(fd);
  if (d)
    sys_record("\"op\":\"ctl\",\"o\":\"%s\",\"n\":%d,\"r\":%d,\"e\":\"%s\",\"v\":\"%s\"", d->name, ev ? evbits(ev->events) : 0,
               r == 0 ? 1 : -1, r ? ename(e) : "", op == EPOLL_CTL_ADD ? "add" : op == EPOLL_CTL_MOD ? "mod" : "del");
  errno = e;
  return r;
}
extern int epoll_wait(int, struct epoll_event*, int, int); /* the runtime's virtualised one */
int vrt_io_epoll_wait(int epfd, struct epoll_event* ev, int max, int timeout) {
  int n = epoll_wait(epfd, ev, max, timeout);
  if (n > 0) {
    char fds[256] = "", evs[128] = "";
    size_t a = 0, b = 0;
    int k = 0;
    for (int i = 0; i < n; i++) {
      iofd_t* d = by_fd(ev[i].data.fd);
      if (!d) continue;
      a += (size_t)snprintf(fds + a, sizeof fds - a, "%s\"%s\"", k ? "," : "", d->name);
      b += (size_t)snprintf(evs + b, sizeof evs - b, "%s%d", k ? "," : "", evbits(ev[i].events));
      k++;
    }
    if (k) sys_record("\"op\":\"poll\",\"o\":\"\",\"n\":%d,\"r\":0,\"e\":\"\",\"v\":\"\",\"fds\":[%s],\"evs\":[%s]", k, fds, evs);
  }
  return n;
}

/* ------------------------------------------------------------------ objects */
static int io_obj(const char* kind, const char* name, long arg, void** obj) {
  if (strcmp(kind, "sockpair") && strcmp(kind, "pipe") && strcmp(kind, "listener")) return 0;
  if (!vrt_wb_io_hook || !vrt_wb_register_io || !vrt_wb_register_ioflags || !vrt_wb_io_nwaiters) {
    fprintf(stderr, "ext_io: this binary was not built with tools/build_fiber_io.sh (I/O wrappers missing)\n");
    exit(68);
  }
  if (!g_hooked) {
    g_hooked = 1;
    vrt_wb_io_hook();
  }
  if (!strcmp(kind, "sockpair")) {
    int sv[2];
    if (socketpair(AF_UNIX, SOCK_STREAM, 0, sv)) exit(65);
    *obj = add_fd(name, "a", sv[0], 1);
    add_fd(name, "b", sv[1], 1);
  } else if (!strcmp(kind, "pipe")) {
    int p[2];
    if (pipe(p)) exit(65);
    if (syscall(SYS_fcntl, p[1], F_SETPIPE_SZ, (long)(arg > 0 ? arg : 1) * UNIT_PIPE) < 0) exit(66);
    *obj = add_fd(name, "r", p[0], UNIT_PIPE);
    add_fd(name, "w", p[1], UNIT_PIPE);
  } else {
    int s = socket(AF_UNIX, SOCK_STREAM, 0);
    if (s < 0) exit(65);
    iofd_t* d = add_fd(name, "", s, 1);
    d->listener = 1;
    d->addr.sun_family = AF_UNIX;
    int n = snprintf(d->addr.sun_path + 1, sizeof d->addr.sun_path - 1, "extio-%d-%s", (int)getpid(), name);
    d->alen = (socklen_t)(offsetof(struct sockaddr_un, sun_path) + 1 + (size_t)n);
    if (syscall(SYS_bind, s, &d->addr, d->alen) || syscall(SYS_listen, s, 8)) exit(67);
    *obj = d;
  }
  return 1;
}

/* ------------------------------------------------------------------ operations */
/* errno of a failed call.  A call that fails because the descriptor is being closed by another fiber is woken
   with FIBER_ERROR and returns -1 WITHOUT setting errno: what the caller then finds in errno is whatever the
   kernel thread it resumed on holds (often EAGAIN of some other attempt).  That value is not an observation of
   the shim, so it is reported as "CLOSED:<errno>" and not judged. */
static const char* fail_name(const iofd_t* d, int e) {
  static __thread char tmp[32];
  if (!d->closing) return ename(e);
  snprintf(tmp, sizeof tmp, "CLOSED:%s", ename(e));
  return tmp;
}

static unsigned char g_buf[16 * UNIT_PIPE];

static long one_read(const char* f, iofd_t* d, long n, const char* opname) {
  /* the fiber may resume on another kernel thread inside the call: no thread-local buffer */
  unsigned char* buf = malloc((size_t)(n * d->unit));
  int fd = d->fd;
  vrt_api("\"f\":\"%s\",\"ph\":\"call\",\"op\":\"%s\",\"o\":\"%s\",\"n\":%ld", f, opname, d->name, n);
  clear_errno();
  long r = read(fd, buf, (size_t)(n * d->unit));
  int e = r < 0 ? fetch_errno() : 0;
  char v[40] = "";
  if (r > 0) ids_of(d, buf, r / d->unit, v, sizeof v);
  vrt_api("\"f\":\"%s\",\"ph\":\"ret\",\"op\":\"%s\",\"o\":\"%s\",\"n\":%ld,\"r\":%ld,\"v\":\"%s\"", f, opname, d->name, n,
          r >= 0 ? r / d->unit : -1, r < 0 ? fail_name(d, e) : v);
  free(buf);
  return r >= 0 ? r / d->unit : -1;
}
static long one_write(const char* f, iofd_t* d, long n, const char* opname) {
  int fd = d->fd;
  unsigned char* buf = malloc((size_t)(n * d->unit));
  for (long i = 0; i < n; i++) memset(buf + i * d->unit, (int)((d->wcount + (unsigned long)i) & 7), (size_t)d->unit);
  vrt_api("\"f\":\"%s\",\"ph\":\"call\",\"op\":\"%s\",\"o\":\"%s\",\"n\":%ld", f, opname, d->name, n);
  clear_errno();
  long r = write(fd, buf, (size_t)(n * d->unit));
  int e = r < 0 ? fetch_errno() : 0;
  if (r > 0) d->wcount += (unsigned long)(r / d->unit);
  vrt_api("\"f\":\"%s\",\"ph\":\"ret\",\"op\":\"%s\",\"o\":\"%s\",\"n\":%ld,\"r\":%ld,\"v\":\"%s\"", f, opname, d->name, n,
          r >= 0 ? r / d->unit : -1, r < 0 ? fail_name(d, e) : "");
  free(buf);
  return r >= 0 ? r / d->unit : -1;
}

static int io_op(const char* f, const char* op, const char* a1, const char* a2) {
  if (!strcmp(op, "rd")) {
    one_read(f, by_name(a1), atol(a2), "rd");
  } else if (!strcmp(op, "wr")) {
    one_write(f, by_name(a1), atol(a2), "wr");
  } else if (!strcmp(op, "rdall")) {
    long want = atol(a2);
    while (want > 0) {
      long r = one_read(f, by_name(a1), want, "rd");
      if (r <= 0) break;
      want -= r;
    }
  } else if (!strcmp(op, "wrall")) {
    long want = atol(a2);
    while (want > 0) {
      long r = one_write(f, by_name(a1), want, "wr");
      if (r <= 0) break;
      want -= r;
    }
  } else if (!strcmp(op, "close")) {
    iofd_t* d = by_name(a1);
    int fd = d->fd;
    d->closing = 1;
    vrt_api("\"f\":\"%s\",\"ph\":\"call\",\"op\":\"close\",\"o\":\"%s\"", f, d->name);
    clear_errno();
    int r = close(fd);
    int e = r < 0 ? fetch_errno() : 0;
    vrt_api("\"f\":\"%s\",\"ph\":\"ret\",\"op\":\"close\",\"o\":\"%s\",\"r\":%d,\"v\":\"%s\"", f, d->name, r == 0 ? 1 : -1, r ? ename(e) : "");
  } else if (!strcmp(op, "accept")) {
    iofd_t* d = by_name(a1);
    vrt_api("\"f\":\"%s\",\"ph\":\"call\",\"op\":\"accept\",\"o\":\"%s\"", f, d->name);
    clear_errno();
    int r = accept(d->fd, NULL, NULL);
    int e = r < 0 ? fetch_errno() : 0;
    if (r >= 0) syscall(SYS_close, r); /* the accepted socket is not used further */
    vrt_api("\"f\":\"%s\",\"ph\":\"ret\",\"op\":\"accept\",\"o\":\"%s\",\"r\":%d,\"v\":\"%s\"", f, d->name, r >= 0 ? 1 : -1, r < 0 ? fail_name(d, e) : "");
  } else if (!strcmp(op, "conn")) {
    iofd_t* d = by_name(a1);
    int c = (int)syscall(SYS_socket, AF_UNIX, SOCK_STREAM | SOCK_NONBLOCK, 0);
    int r = (int)syscall(SYS_connect, c, &d->addr, d->alen);
    sys_record("\"op\":\"conn\",\"o\":\"%s\",\"n\":0,\"r\":%d,\"e\":\"\",\"v\":\"\"", d->name, r == 0 ? 1 : -1);
  } else if (!strcmp(op, "fill")) { /* harness: stuff our send direction with filler */
    iofd_t* d = by_name(a1);
    long fl = syscall(SYS_fcntl, d->fd, F_GETFL, 0);
    syscall(SYS_fcntl, d->fd, F_SETFL, fl | O_NONBLOCK);
    static const size_t chunks[] = {65536, 4096, 256, 16, 1};
    memset(g_buf, 0xee, sizeof g_buf);
    for (int ci = 0; ci < 5; ci++)
      while (syscall(SYS_write, d->fd, g_buf, chunks[ci]) > 0) {}
    sys_record("\"op\":\"fill\",\"o\":\"%s\",\"n\":0,\"r\":1,\"e\":\"\",\"v\":\"\"", d->name);
  } else if (!strcmp(op, "drain")) { /* harness: take everything that is pending at this end out again */
    iofd_t* d = by_name(a1);
    while (syscall(SYS_read, d->fd, g_buf, sizeof g_buf) > 0) {}
    sys_record("\"op\":\"drain\",\"o\":\"%s\",\"n\":0,\"r\":1,\"e\":\"\",\"v\":\"\"", d->name);
  } else if (!strcmp(op, "awaitn")) {
    iofd_t* d = by_name(a1);
    int fd = d->fd;
    while (vrt_wb_io_nwaiters(fd) < atoi(a2)) fiber_yield();
  } else
    return 0;
  return 1;
}
DRV_EXT_REGISTER(io, io_op, io_obj, NULL)
