/* registry of the module-specific driver extensions (drivers/ext_<module>.c) */
#include <stddef.h>
#include "drv_ext.h"
static const drv_ext_t* g_ext[32];
static int g_next;
void drv_ext_register(const drv_ext_t* e) {
  if (g_next < 32) g_ext[g_next++] = e;
}
int drv_ext_op(const char* fiber, const char* op, const char* a1, const char* a2) {
  for (int i = 0; i < g_next; i++)
    if (g_ext[i]->op && g_ext[i]->op(fiber, op, a1, a2)) return 1;
  return 0;
}
int drv_ext_obj(const char* kind, const char* name, long arg, void** obj) {
  for (int i = 0; i < g_next; i++)
    if (g_ext[i]->obj && g_ext[i]->obj(kind, name, arg, obj)) return 1;
  return 0;
}
void drv_ext_setup(void) {
  for (int i = 0; i < g_next; i++)
    if (g_ext[i]->setup) g_ext[i]->setup();
}
