/* module-specific operations of the fiber-regime driver (grows with the modules) */
#include <string.h>
#include "drv_ext.h"
int drv_ext_op(const char* fiber, const char* op, const char* a1, const char* a2) {
  (void)fiber; (void)op; (void)a1; (void)a2;
  return 0;
}
int drv_ext_obj(const char* kind, const char* name, long arg, void** obj) {
  (void)kind; (void)name; (void)arg; (void)obj;
  return 0;
}
void drv_ext_setup(void) {}
