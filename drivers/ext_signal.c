/* fiber-regime driver extension: fiber_signal / fiber_multi_signal
 * (signal clause of property C11, multi-signal clause of C20)
 *
 *   signal s1            fiber_signal_t, not raised
 *   msignal ms1          fiber_multi_signal_t, no waiter
 *   test helper: msigawaitc ms1 n (yield until the counter of ms1 is >= n)
 *   ops: sigwait s1 | sigraise s1 | msigwait ms1 | msigraise ms1 | msigraisestrict ms1
 */
#include <stdlib.h>
#include <string.h>
#include "drv_ext.h"
#include "fiber_manager.h"
#include "fiber_signal.h"
#include "vrt_fiber.h"

/* The multi-signal loops call cpu_relax() after a compare_and_swap2 that failed because the
 * (counter, head) snapshot was stale.  The runtime parks a relaxing thread until some OTHER thread
 * changes tracked memory; a retry that would succeed on its own (everybody else idle) would then be
 * reported as a lost wake-up.  This environment action (consulted by the scheduler when nothing
 * else can run; scenarios set VRT_ENV_PCT=0 so that it never fires otherwise) lets every call that
 * is still actively executing a multi-signal operation retry a bounded number of times.  A fiber
 * that sleeps in fiber_multi_signal_wait (state != RUNNING) is not active: a real lost wake-up
 * still ends the run as "quiescent". */
#define MAXINF 16
static struct {
  fiber_t* f;
  int is_wait;
  int budget;
} g_inf[MAXINF];
static int inf_begin(int is_wait) {
  for (int i = 0; i < MAXINF; i++)
    if (!g_inf[i].f) {
      g_inf[i].f = fiber_manager_get()->current_fiber;
      g_inf[i].is_wait = is_wait;
      g_inf[i].budget = 64;
      return i;
    }
  return -1;
}
static void inf_end(int i) {
  if (i >= 0) g_inf[i].f = NULL;
}
static int inf_active(int i) {
  return g_inf[i].f && g_inf[i].budget > 0 && (!g_inf[i].is_wait || g_inf[i].f->state == FIBER_STATE_RUNNING);
}
static int retry_enabled(void) {
  for (int i = 0; i < MAXINF; i++)
    if (inf_active(i)) return 1;
  return 0;
}
static void retry_act(void) {
  for (int i = 0; i < MAXINF; i++)
    if (inf_active(i)) g_inf[i].budget--;
}
static int g_retry_registered;

static int sg_obj(const char* kind, const char* name, long arg, void** obj) {
  (void)arg;
  if (!strcmp(kind, "signal")) {
    fiber_signal_t* s = calloc(1, sizeof *s);
    fiber_signal_init(s);
    static const vrt_field_t f[] = {
        {"waiter", offsetof(fiber_signal_t, waiter), 8, VD_PTR, 0, 0},
    };
    vrt_reg_obj(name, s, sizeof *s, f, 1);
    *obj = s;
    return 1;
  }
  if (!strcmp(kind, "msignal")) {
    fiber_multi_signal_t* s = aligned_alloc(2 * sizeof(void*), sizeof *s);
    memset(s, 0, sizeof *s);
    fiber_multi_signal_init(s);
    static const vrt_field_t f[] = {
        {"counter", 0, 8, VD_U64, 0, 0},
        {"head", 8, 8, VD_PTR, 0, 0},
    };
    vrt_reg_obj(name, s, sizeof *s, f, 2);
    if (!g_retry_registered) {
      g_retry_registered = 1;
      vrt_env_action("msig_retry", retry_enabled, retry_act);
    }
    *obj = s;
    return 1;
  }
  return 0;
}

static int sg_op(const char* f, const char* op, const char* a1, const char* a2) {
  if (!strcmp(op, "sigwait")) {
    vrt_api("\"f\":\"%s\",\"ph\":\"call\",\"op\":\"sigwait\",\"o\":\"%s\"", f, a1);
    fiber_signal_wait(drv_obj("signal", a1));
    vrt_api("\"f\":\"%s\",\"ph\":\"ret\",\"op\":\"sigwait\",\"o\":\"%s\",\"r\":1", f, a1);
    return 1;
  }
  if (!strcmp(op, "sigraise")) {
    vrt_api("\"f\":\"%s\",\"ph\":\"call\",\"op\":\"sigraise\",\"o\":\"%s\"", f, a1);
    int r = fiber_signal_raise(drv_obj("signal", a1));
    vrt_api("\"f\":\"%s\",\"ph\":\"ret\",\"op\":\"sigraise\",\"o\":\"%s\",\"r\":%d", f, a1, r);
    return 1;
  }
  if (!strcmp(op, "msigwait")) {
    vrt_api("\"f\":\"%s\",\"ph\":\"call\",\"op\":\"msigwait\",\"o\":\"%s\"", f, a1);
    int k = inf_begin(1);
    fiber_multi_signal_wait(drv_obj("msignal", a1));
    inf_end(k);
    vrt_api("\"f\":\"%s\",\"ph\":\"ret\",\"op\":\"msigwait\",\"o\":\"%s\",\"r\":1", f, a1);
    return 1;
  }
  if (!strcmp(op, "msigraise")) {
    vrt_api("\"f\":\"%s\",\"ph\":\"call\",\"op\":\"msigraise\",\"o\":\"%s\"", f, a1);
    int k = inf_begin(0);
    int r = fiber_multi_signal_raise(drv_obj("msignal", a1));
    inf_end(k);
    vrt_api("\"f\":\"%s\",\"ph\":\"ret\",\"op\":\"msigraise\",\"o\":\"%s\",\"r\":%d", f, a1, r);
    return 1;
  }
  if (!strcmp(op, "msigraisestrict")) {
    vrt_api("\"f\":\"%s\",\"ph\":\"call\",\"op\":\"msigraisestrict\",\"o\":\"%s\"", f, a1);
    int k = inf_begin(0);
    fiber_multi_signal_raise_strict(drv_obj("msignal", a1));
    inf_end(k);
    vrt_api("\"f\":\"%s\",\"ph\":\"ret\",\"op\":\"msigraisestrict\",\"o\":\"%s\",\"r\":1", f, a1);
    return 1;
  }
  if (!strcmp(op, "msigawaitc")) {
    /* test helper: yield until the counter of the multi-signal has reached a2 */
    fiber_multi_signal_t* s = drv_obj("msignal", a1);
    uintptr_t n = (uintptr_t)strtoul(a2, NULL, 0);
    while (atomic_load_explicit(&s->data.counter, memory_order_acquire) < n) fiber_yield();
    return 1;
  }
  return 0;
}
DRV_EXT_REGISTER(signal, sg_op, sg_obj, NULL)
