/* fiber-regime driver extension: fiber_signal / fiber_multi_signal
 * (signal clause of property C11, multi-signal clause of C20)
 *
 *   signal s1            fiber_signal_t, not raised
 *   msignal ms1          fiber_multi_signal_t, no waiter
 *   test helper: msigawaitc ms1 n (yield until the counter of ms1 is >= n)
 *   ops: sigwait s1 | sigraise s1 | msigwait ms1 | msigraise ms1 | msigraisestrict ms1
 */
#include <stdlib.h>
#include <string.h>
#include "drv_ext.h"
#include "fiber_manager.h"
#include "fiber_signal.h"
#include "vrt_fiber.h"

static int sg_obj(const char* kind, const char* name, long arg, void** obj) {
  (void)arg;
  if (!strcmp(kind, "signal")) {
    fiber_signal_t* s = calloc(1, sizeof *s);
    fiber_signal_init(s);
    static const vrt_field_t f[] = {
        {"waiter", offsetof(fiber_signal_t, waiter), 8, VD_PTR, 0, 0},
    };
    vrt_reg_obj(name, s, sizeof *s, f, 1);
    *obj = s;
    return 1;
  }
  if (!strcmp(kind, "msignal")) {
    fiber_multi_signal_t* s = aligned_alloc(2 * sizeof(void*), sizeof *s);
    memset(s, 0, sizeof *s);
    fiber_multi_signal_init(s);
    static const vrt_field_t f[] = {
        {"counter", 0, 8, VD_U64, 0, 0},
        {"head", 8, 8, VD_PTR, 0, 0},
    };
    vrt_reg_obj(name, s, sizeof *s, f, 2);
    *obj = s;
    return 1;
  }
  return 0;
}

static int sg_op(const char* f, const char* op, const char* a1, const char* a2) {
  if (!strcmp(op, "sigwait")) {
    vrt_api("\"f\":\"%s\",\"ph\":\"call\",\"op\":\"sigwait\",\"o\":\"%s\"", f, a1);
    fiber_signal_wait(drv_obj("signal", a1));
    vrt_api("\"f\":\"%s\",\"ph\":\"ret\",\"op\":\"sigwait\",\"o\":\"%s\",\"r\":1", f, a1);
    return 1;
  }
  if (!strcmp(op, "sigraise")) {
    vrt_api("\"f\":\"%s\",\"ph\":\"call\",\"op\":\"sigraise\",\"o\":\"%s\"", f, a1);
    int r = fiber_signal_raise(drv_obj("signal", a1));
    vrt_api("\"f\":\"%s\",\"ph\":\"ret\",\"op\":\"sigraise\",\"o\":\"%s\",\"r\":%d", f, a1, r);
    return 1;
  }
  if (!strcmp(op, "msigwait")) {
    vrt_api("\"f\":\"%s\",\"ph\":\"call\",\"op\":\"msigwait\",\"o\":\"%s\"", f, a1);
    fiber_multi_signal_wait(drv_obj("msignal", a1));
    vrt_api("\"f\":\"%s\",\"ph\":\"ret\",\"op\":\"msigwait\",\"o\":\"%s\",\"r\":1", f, a1);
    return 1;
  }
  if (!strcmp(op, "msigraise")) {
    vrt_api("\"f\":\"%s\",\"ph\":\"call\",\"op\":\"msigraise\",\"o\":\"%s\"", f, a1);
    int r = fiber_multi_signal_raise(drv_obj("msignal", a1));
    vrt_api("\"f\":\"%s\",\"ph\":\"ret\",\"op\":\"msigraise\",\"o\":\"%s\",\"r\":%d", f, a1, r);
    return 1;
  }
  if (!strcmp(op, "msigraisestrict")) {
    vrt_api("\"f\":\"%s\",\"ph\":\"call\",\"op\":\"msigraisestrict\",\"o\":\"%s\"", f, a1);
    fiber_multi_signal_raise_strict(drv_obj("msignal", a1));
    vrt_api("\"f\":\"%s\",\"ph\":\"ret\",\"op\":\"msigraisestrict\",\"o\":\"%s\",\"r\":1", f, a1);
    return 1;
  }
  if (!strcmp(op, "msigawaitc")) {
    /* test helper: yield until the counter of the multi-signal has reached a2 */
    fiber_multi_signal_t* s = drv_obj("msignal", a1);
    uintptr_t n = (uintptr_t)strtoul(a2, NULL, 0);
    while (atomic_load_explicit(&s->data.counter, memory_order_acquire) < n) fiber_yield();
    return 1;
  }
  return 0;
}
DRV_EXT_REGISTER(signal, sg_op, sg_obj, NULL)
