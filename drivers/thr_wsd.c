/* thread-regime driver for src/work_stealing_deque.c (property C02, deque part)
 *
 * ops:  push <v> | pop         (thread t0, the owner)
 *       steal                  (threads t1.., the thieves)
 *
 * Tracked memory (names as used by spec/thread/WSDeque.tla.in):
 *   "dq"   top, bottom, underlying_array (rendered as the array's name)
 *   "a1".. one object per circular array, fields s0..s<n-1> = slot content (value name / "junk")
 *   "res"  t0.. = result of the thread's last pop/steal ("#-1" = WSD_EMPTY, "#-2" = WSD_ABORT);
 *          written by the driver after the call returned, so that trace validation binds the
 *          value the real call returned to the value the model computes
 *
 * The real deque starts with a 2^8-slot array.  To cross the growth boundary after one or two
 * pushes the driver replaces it (before the run starts) by wsd_circular_array_create(1) (2 slots);
 * growth then produces 4- and 8-slot arrays.  The code is generic in the array size.
 *
 * Arrays are allocated by the library (malloc inside wsd_circular_array_create).  For slot
 * accesses to be scheduling points from the first access on, the arrays must be registered at
 * allocation time: this TU defines malloc() (forwarding to glibc's __libc_malloc) and, while the
 * owner is inside setup / push_bottom, registers every allocation as the next array "a<k>", fills
 * its slots with the address of the dummy object "junk" (the real code leaves them uninitialised;
 * a "junk" result would be reported as a value that was never pushed) and watches it for free()
 * (an access to a freed array is reported by the runtime as dead_access).
 */
#include "thr_common.h"
#include "work_stealing_deque.h"

extern void* __libc_malloc(size_t);

static wsd_work_stealing_deque_t* dq;
static void* results[TMAXT];
static char junk_obj[8];
static char vals[32][8];
static char val_names[32][16];
static int nvals;
static int narrays;
static __thread int hook_on;

static void register_array(void* p, size_t bytes) {
  size_t n = (bytes - sizeof(wsd_circular_array_t)) / sizeof(wsd_circular_array_elem_t);
  if (n > 64) return; /* the library's own initial 2^8 array: replaced before the run */
  wsd_circular_array_t* a = p;
  vrt_field_t f[64];
  static char fn[64][8];
  for (size_t i = 0; i < n; i++) {
    a->data[i].data = junk_obj;
    snprintf(fn[i], sizeof fn[i], "s%zu", i);
    f[i] = (vrt_field_t){fn[i], offsetof(wsd_circular_array_t, data) + i * sizeof(wsd_circular_array_elem_t), 8, VD_PTR, 0, 0};
  }
  char name[16];
  snprintf(name, sizeof name, "a%d", ++narrays);
  vrt_reg_obj(name, p, bytes, f, (int)n);
  vrt_watch_free(p);
}

void* malloc(size_t n) {
  void* p = __libc_malloc(n);
  if (hook_on && p && n > sizeof(wsd_circular_array_t)) {
    hook_on = 0;
    register_array(p, n);
    hook_on = 1;
  }
  return p;
}

static void* val_ptr(const char* name) {
  for (int i = 0; i < nvals; i++)
    if (!strcmp(val_names[i], name)) return vals[i];
  snprintf(val_names[nvals], 16, "%s", name);
  vrt_reg_name(name, vals[nvals], 8);
  return vals[nvals++];
}

static void drv_setup(void) {
  vrt_reg_name("junk", junk_obj, sizeof junk_obj);
  dq = wsd_work_stealing_deque_create();
  wsd_circular_array_t* big = dq->underlying_array;
  hook_on = 1;
  wsd_circular_array_t* small = wsd_circular_array_create(1); /* registered as "a1" by the malloc hook */
  hook_on = 0;
  dq->underlying_array = small;
  wsd_circular_array_destroy(big);
  static const vrt_field_t qf[] = {
      {"top", offsetof(wsd_work_stealing_deque_t, top), 8, VD_I64, 0, 0},
      {"bottom", offsetof(wsd_work_stealing_deque_t, bottom), 8, VD_I64, 0, 0},
      {"underlying_array", offsetof(wsd_work_stealing_deque_t, underlying_array), 8, VD_PTR, 0, 0},
  };
  vrt_reg_obj("dq", dq, sizeof *dq, qf, 3);
  vrt_field_t rf[TMAXT];
  static char rn[TMAXT][8];
  for (int i = 0; i < t_nthreads; i++) {
    snprintf(rn[i], sizeof rn[i], "t%d", i);
    rf[i] = (vrt_field_t){rn[i], (size_t)i * sizeof(void*), 8, VD_PTR, 0, 0};
  }
  vrt_reg_obj("res", results, sizeof results, rf, t_nthreads);
  /* pre-register every value name used by the scripts */
  for (int t = 0; t < t_nthreads; t++)
    for (int i = 0; i < t_nops[t]; i++)
      if (!strcmp(t_ops[t][i].op, "push")) val_ptr(t_ops[t][i].a1);
}

static void drv_op(int tid, const char* op, const char* a1, const char* a2, const char* a3) {
  (void)a2;
  (void)a3;
  if (!strcmp(op, "push")) {
    void* p = val_ptr(a1);
    vrt_api("\"f\":\"t%d\",\"ph\":\"call\",\"op\":\"push\",\"v\":\"%s\"", tid, a1);
    hook_on = 1;
    wsd_work_stealing_deque_push_bottom(dq, p);
    hook_on = 0;
    vrt_api("\"f\":\"t%d\",\"ph\":\"ret\",\"op\":\"push\",\"v\":\"%s\"", tid, a1);
  } else if (!strcmp(op, "pop") || !strcmp(op, "steal")) {
    vrt_api("\"f\":\"t%d\",\"ph\":\"call\",\"op\":\"%s\"", tid, op);
    void* r = op[0] == 'p' ? wsd_work_stealing_deque_pop_bottom(dq) : wsd_work_stealing_deque_steal(dq);
    results[tid] = r; /* tracked: one scheduling step, event w=[["res","t<i>",...]] */
    /* vrt_name_of() returns a thread-local static buffer for unregistered pointers ("#-1"), which the
       field rendering inside vrt_api() overwrites: copy it first */
    char rname[48];
    snprintf(rname, sizeof rname, "%s", vrt_name_of(r));
    vrt_api("\"f\":\"t%d\",\"ph\":\"ret\",\"op\":\"%s\",\"v\":\"%s\"", tid, op, rname);
  } else {
    fprintf(stderr, "unknown op %s\n", op);
    exit(64);
  }
}
