/* thread-regime driver for include/mpsc_relaxed_fifo.h (property C15)
 *
 * params: producers <NP>, nodes <names...>
 * ops:  push <p> <node> <value>   (the thread acting as producer number p)
 *       pop                       (consumer thread)
 *       popw                      (consumer thread: retry pop, cpu_relax() in between, until an item arrives)
 *       repush <p> <value>        (producer p: take the oldest node the consumer has popped
 *                                  from the driver's free list and push it again; nothing
 *                                  happens if the list is empty)
 *       repushw <p> <value>       (same, but wait until the free list is not empty)
 * The free list is plain driver memory: it is only touched between two
 * scheduling points, i.e. atomically with the preceding tracked access (the
 * spec does the same inside the label of that access).  "repush" must not be
 * the first operation of a thread (the thread's start step is silent).
 * Registered names: drv (tries: retries of waiting pops, sh: nodes taken from the free list), q (counter), f<i> (head, tail), s<i> (initial stub of sub-queue i), nodes, values.
 */
#include "mpsc_relaxed_fifo.h"
#include "thr_common.h"

static mpscr_fifo_t* q;
#define MAXN 16
static spsc_node_t* nodes[MAXN];
static char node_names[MAXN][16];
static int nnodes;
static char vals[48][8];
static char val_names[48][16];
static int nvals;
static spsc_node_t* spare[128];
static int spare_t;
/* registered as drv.tries (retries of waiting pops) and drv.sh (number of nodes taken from the
   free list; VF_NOSCHED: not a scheduling point, but diffed, so that a take is recorded even
   when it happens in an otherwise silent step such as the return from cpu_relax()) */
static struct {
  uint64_t tries, sh;
} drv;
#define spare_h drv.sh
static int pushes_done, pops_done; /* driver accounting (plain memory, see popw) */

static const vrt_field_t node_fields[] = {
    {"data", offsetof(spsc_node_t, data), 8, VD_PTR, 0, 0},
    {"next", offsetof(spsc_node_t, next), 8, VD_PTR, 0, 0},
};
static void* val_ptr(const char* name) {
  for (int i = 0; i < nvals; i++)
    if (!strcmp(val_names[i], name)) return vals[i];
  snprintf(val_names[nvals], 16, "%s", name);
  vrt_reg_name(name, vals[nvals], 8);
  return vals[nvals++];
}
static spsc_node_t* node_by_name(const char* n) {
  for (int i = 0; i < nnodes; i++)
    if (!strcmp(node_names[i], n)) return nodes[i];
  fprintf(stderr, "unknown node %s\n", n);
  exit(64);
}
static unsigned long long g_counter_base;
static void dec_counter(const void* base, char* out, size_t cap) {
  snprintf(out, cap, "%lld", (long long)((unsigned long long)((const mpscr_fifo_t*)base)->counter - g_counter_base));
}
static void drv_setup(void) {
  const char* nps = t_param("producers");
  int np = nps ? atoi(nps) : 2;
  q = mpscr_fifo_create((size_t)np);
  if (!q) exit(65);
  /* counter is rendered relative to a preset base (param counter_base, a multiple of the
     producer count) so that a scenario can start just below 2^32 and cross it */
  const char* cb = t_param("counter_base");
  g_counter_base = cb ? strtoull(cb, NULL, 10) : 0;
  q->counter = g_counter_base;
  static const vrt_field_t qf[] = {
      {"ctr", offsetof(mpscr_fifo_t, counter), 1, VD_U8, VF_NOEPOCH, 0}, /* low byte: makes accesses scheduling points */
      {"counter", 0, 0, VD_CUSTOM, 0, dec_counter},
  };
  static const vrt_field_t ff[] = {
      {"head", offsetof(spsc_fifo_t, head), 8, VD_PTR, 0, 0},
      {"tail", offsetof(spsc_fifo_t, tail), 8, VD_PTR, 0, 0},
  };
  char name[16];
  for (int i = 0; i < np; i++) {
    snprintf(name, sizeof name, "s%d", i);
    vrt_reg_obj(name, (void*)q->fifos[i].head, sizeof(spsc_node_t), node_fields, 2);
  }
  const char* ns = t_param("nodes");
  char buf[256];
  snprintf(buf, sizeof buf, "%s", ns ? ns : "");
  for (char* t = strtok(buf, " "); t; t = strtok(NULL, " ")) {
    nodes[nnodes] = calloc(1, sizeof(spsc_node_t));
    snprintf(node_names[nnodes], 16, "%s", t);
    vrt_reg_obj(t, nodes[nnodes], sizeof(spsc_node_t), node_fields, 2);
    nnodes++;
  }
  /* pre-register every value name used by the scripts (registration is not thread safe) */
  for (int t = 0; t < t_nthreads; t++)
    for (int i = 0; i < t_nops[t]; i++) {
      if (!strcmp(t_ops[t][i].op, "push")) val_ptr(t_ops[t][i].a3);
      if (!strncmp(t_ops[t][i].op, "repush", 6)) val_ptr(t_ops[t][i].a2);
    }
  static const vrt_field_t df[] = {{"tries", offsetof(__typeof__(drv), tries), 8, VD_U64, 0, 0},
                                   {"sh", offsetof(__typeof__(drv), sh), 8, VD_U64, VF_NOSCHED, 0}};
  vrt_reg_obj("drv", &drv, sizeof drv, df, 2);
  vrt_reg_obj("q", q, offsetof(mpscr_fifo_t, fifos), qf, 2);
  for (int i = 0; i < np; i++) {
    snprintf(name, sizeof name, "f%d", i);
    vrt_reg_obj(name, &q->fifos[i], sizeof(spsc_fifo_t), ff, 2);
  }
}
static void do_push(int tid, size_t p, spsc_node_t* n, const char* v) {
  vrt_api("\"f\":\"t%d\",\"ph\":\"call\",\"op\":\"push\",\"o\":\"%s\",\"v\":\"%s\",\"n\":%d", tid, vrt_name_of(n), v, (int)p);
  n->data = val_ptr(v);
  mpscr_fifo_push(q, p, n);
  pushes_done++;
  vrt_api("\"f\":\"t%d\",\"ph\":\"ret\",\"op\":\"push\",\"o\":\"%s\",\"v\":\"%s\",\"n\":%d", tid, vrt_name_of(n), v, (int)p);
}
static int do_pop(int tid) {
  vrt_api("\"f\":\"t%d\",\"ph\":\"call\",\"op\":\"pop\"", tid);
  spsc_node_t* n = mpscr_fifo_trypop(q);
  /* consume the payload BEFORE the node is handed back to the producers (reading it is a
     scheduling point; afterwards the node may be overwritten at any time) */
  const char* v = n ? vrt_name_of(n->data) : "null";
  char vbuf[24];
  snprintf(vbuf, sizeof vbuf, "%s", v);
  const char* o = vrt_name_of(n);
  if (n) {
    spare[spare_t++] = n;
    pops_done++;
    vrt_progress(); /* the free list is not tracked memory: tell the scheduler that waiters may go on */
  }
  vrt_api("\"f\":\"t%d\",\"ph\":\"ret\",\"op\":\"pop\",\"o\":\"%s\",\"v\":\"%s\"", tid, o, vbuf);
  return n != NULL;
}
static void drv_op(int tid, const char* op, const char* a1, const char* a2, const char* a3) {
  if (!strcmp(op, "push")) {
    do_push(tid, (size_t)atoi(a1), node_by_name(a2), a3);
  } else if (!strcmp(op, "pop")) {
    do_pop(tid);
  } else if (!strcmp(op, "popw")) {
    while (!do_pop(tid)) {
      /* Yield (the scheduler does not run this thread again until another thread changes
         something) only if no COMPLETED push is pending: an "empty" result can be stale
         (a sub-queue visited early may have been filled while the later ones were visited),
         and then nobody would ever change anything again -> false "quiescent".  No
         scheduling point lies between the failed observation, this test and the yield. */
      if (pushes_done == pops_done) cpu_relax();
      drv.tries++; /* tracked: one recorded event per turn of the retry loop */
    }
  } else if (!strcmp(op, "repush")) {
    if (spare_h < (uint64_t)spare_t) do_push(tid, (size_t)atoi(a1), spare[spare_h++], a2);
  } else if (!strcmp(op, "repushw")) {
    while (spare_h == (uint64_t)spare_t) cpu_relax();
    do_push(tid, (size_t)atoi(a1), spare[spare_h++], a2);
  } else {
    fprintf(stderr, "unknown op %s\n", op);
    exit(64);
  }
}
