/* fiber-regime driver extension: fiber_cond (property C05)
 *
 * objects:  cond <name>     creates a fiber_cond_t; tracked fields of <name>: count (waiter_count),
 *                           q / tailf (abstract view of the MPSC waiter queue); the internal mutex is
 *                           registered as the mutex <name>_im (list that name under "mutex" in the
 *                           scenario too, so that the core model has it; the stand-alone mutex the
 *                           core driver creates for that line is never used and never changes).
 * operations: condwait <cond> <mutex>   caller must hold <mutex>
 *             signal <cond> | broadcast <cond>
 *             awaitwaiters <cond> <n>   test helper: yield until waiter_count >= n
 */
#include <stdatomic.h>
#include <stdio.h>
#include <stdlib.h>
#include <string.h>
#include "drv_ext.h"
#include "fiber.h"
#include "fiber_cond.h"
#include "vrt_fiber.h"

static void dec_q(const void* base, char* out, size_t cap) { vrt_mpsc_q(&((const fiber_cond_t*)base)->waiters, out, cap); }
static void dec_tailf(const void* base, char* out, size_t cap) { vrt_mpsc_tailf(&((const fiber_cond_t*)base)->waiters, out, cap); }

static int c_obj(const char* kind, const char* name, long arg, void** obj) {
  (void)arg;
  if (strcmp(kind, "cond")) return 0;
  fiber_cond_t* c = calloc(1, sizeof *c);
  fiber_cond_init(c);
  static const vrt_field_t f[] = {
      {"count", offsetof(fiber_cond_t, waiter_count), sizeof(intptr_t), VD_I64, 0, 0},
      {"q", 0, 0, VD_CUSTOM, 0, dec_q},
      {"tailf", 0, 0, VD_CUSTOM, 0, dec_tailf},
  };
  /* the object ends where the embedded internal mutex begins: that one is an object of its own */
  vrt_reg_obj(name, c, offsetof(fiber_cond_t, internal_mutex), f, 3);
  char im[40];
  snprintf(im, sizeof im, "%.32s_im", name);
  vrt_reg_mutex(im, &c->internal_mutex);
  *obj = c;
  return 1;
}

static int c_op(const char* f, const char* op, const char* a1, const char* a2) {
  if (!strcmp(op, "condwait")) {
    fiber_cond_t* c = drv_obj("cond", a1);
    fiber_mutex_t* m = drv_obj("mutex", a2);
    /* for the mutex monitor a wait is an unlock at the call and a successful lock at the return */
    vrt_api("\"f\":\"%s\",\"ph\":\"call\",\"op\":\"condwait\",\"o\":\"%s\",\"v\":\"%s\"", f, a1, a2);
    vrt_api("\"f\":\"%s\",\"ph\":\"call\",\"op\":\"unlock\",\"o\":\"%s\"", f, a2);
    int r = fiber_cond_wait(c, m);
    vrt_api("\"f\":\"%s\",\"ph\":\"ret\",\"op\":\"condwait\",\"o\":\"%s\",\"v\":\"%s\",\"r\":%d", f, a1, a2, r);
    vrt_api("\"f\":\"%s\",\"ph\":\"ret\",\"op\":\"lock\",\"o\":\"%s\",\"r\":1", f, a2);
    return 1;
  }
  if (!strcmp(op, "signal")) {
    vrt_api("\"f\":\"%s\",\"ph\":\"call\",\"op\":\"signal\",\"o\":\"%s\"", f, a1);
    int r = fiber_cond_signal(drv_obj("cond", a1));
    vrt_api("\"f\":\"%s\",\"ph\":\"ret\",\"op\":\"signal\",\"o\":\"%s\",\"r\":%d", f, a1, r);
    return 1;
  }
  if (!strcmp(op, "broadcast")) {
    vrt_api("\"f\":\"%s\",\"ph\":\"call\",\"op\":\"broadcast\",\"o\":\"%s\"", f, a1);
    int r = fiber_cond_broadcast(drv_obj("cond", a1));
    vrt_api("\"f\":\"%s\",\"ph\":\"ret\",\"op\":\"broadcast\",\"o\":\"%s\",\"r\":%d", f, a1, r);
    return 1;
  }
  if (!strcmp(op, "awaitwaiters")) {
    fiber_cond_t* c = drv_obj("cond", a1);
    long n = strtol(a2, NULL, 0);
    while (atomic_load(&c->waiter_count) < n) fiber_yield();
    return 1;
  }
  return 0;
}
DRV_EXT_REGISTER(cond, c_op, c_obj, NULL)
