/* thread-regime driver for include/mpmc_lifo.h (property C20): lock-free LIFO whose
 * (counter, head) pair is updated by the 16-byte compare_and_swap2.
 *
 * script ops:  push <node>   push a node this thread owns (initial owner per the scenario)
 *              pop           mpmc_lifo_pop; the result is stored in the tracked field t<i>.got and,
 *                            if not NULL, appended to the thread's private hand
 *              repush        push the OLDEST node of the hand again (immediate reuse; after "pop; pop"
 *                            this is the ABA pattern: the first popped node comes back with a new next),
 *                            no-op if the hand is empty
 */
#include "mpmc_lifo.h"
#include "thr_common.h"

static mpmc_lifo_t q __attribute__((aligned(16)));
#define MAXN 16
static mpmc_lifo_node_t* nodes[MAXN];
static char node_names[MAXN][16];
static int nnodes;
typedef struct {
  mpmc_lifo_node_t* got;
  char pad[56];
} tres_t;
static tres_t res[TMAXT];
static __thread mpmc_lifo_node_t* hand[TMAXOPS];
static __thread int hand_lo, hand_hi;

static const vrt_field_t node_fields[] = {
    {"next", offsetof(mpmc_lifo_node_t, next), 8, VD_PTR, 0, 0},
};
static mpmc_lifo_node_t* node_by_name(const char* n) {
  for (int i = 0; i < nnodes; i++)
    if (!strcmp(node_names[i], n)) return nodes[i];
  fprintf(stderr, "unknown node %s\n", n);
  exit(64);
}
static void drv_setup(void) {
  mpmc_lifo_init(&q);
  static const vrt_field_t qf[] = {
      {"counter", 0, 8, VD_U64, 0, 0}, /* low word of the pair  */
      {"head", 8, 8, VD_PTR, 0, 0},    /* high word of the pair */
  };
  static const vrt_field_t tf[] = {{"got", offsetof(tres_t, got), 8, VD_PTR, 0, 0}};
  const char* ns = t_param("nodes");
  char buf[256];
  snprintf(buf, sizeof buf, "%s", ns ? ns : "");
  for (char* t = strtok(buf, " "); t; t = strtok(NULL, " ")) {
    nodes[nnodes] = calloc(1, sizeof(mpmc_lifo_node_t));
    snprintf(node_names[nnodes], 16, "%s", t);
    vrt_reg_obj(t, nodes[nnodes], sizeof(mpmc_lifo_node_t), node_fields, 1);
    nnodes++;
  }
  for (int t = 0; t < t_nthreads; t++) {
    char nm[16];
    snprintf(nm, sizeof nm, "t%d", t);
    vrt_reg_obj(nm, &res[t], sizeof(tres_t), tf, 1);
  }
  vrt_reg_obj("q", &q, sizeof q, qf, 2);
}
static void do_push(int tid, mpmc_lifo_node_t* n) {
  vrt_api("\"f\":\"t%d\",\"ph\":\"call\",\"op\":\"push\",\"o\":\"%s\"", tid, vrt_name_of(n));
  mpmc_lifo_push(&q, n);
  vrt_api("\"f\":\"t%d\",\"ph\":\"ret\",\"op\":\"push\",\"o\":\"%s\"", tid, vrt_name_of(n));
}
static void drv_op(int tid, const char* op, const char* a1, const char* a2, const char* a3) {
  (void)a2;
  (void)a3;
  if (!strcmp(op, "push")) {
    do_push(tid, node_by_name(a1));
  } else if (!strcmp(op, "pop")) {
    vrt_api("\"f\":\"t%d\",\"ph\":\"call\",\"op\":\"pop\"", tid);
    mpmc_lifo_node_t* n = mpmc_lifo_pop(&q);
    vrt_api("\"f\":\"t%d\",\"ph\":\"ret\",\"op\":\"pop\",\"o\":\"%s\"", tid, vrt_name_of(n));
    res[tid].got = n; /* tracked: the spec must explain which node this thread received */
    if (n) hand[hand_hi++] = n;
  } else if (!strcmp(op, "repush")) {
    if (hand_lo < hand_hi) do_push(tid, hand[hand_lo++]);
  } else {
    fprintf(stderr, "unknown op %s\n", op);
    exit(64);
  }
}
