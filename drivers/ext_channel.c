/* fiber-regime driver extension: channels of property C11
 *
 *   bchan ch1 1     fiber_bounded_channel_t, capacity 1 << 1, own ready signal "ch1_s"
 *   uchan ch1       fiber_unbounded_channel_t (MPSC queue), ready signal "ch1_s"
 *   spchan ch1      fiber_unbounded_sp_channel_t (SPSC queue), ready signal "ch1_s"
 *   mchan ch1 1     fiber_multi_channel_t, capacity 1 << 1, its mutex is registered as "ch1_m"
 *   ops: send ch1 v1 | recv ch1 | tryrecv ch1 (poll with try_receive, yield between attempts)
 *        (messages are the registered names v1..v15)
 *
 * The queue primitives under the unbounded channels are verified by the thread-regime
 * modules; here they are atomic sections (one scheduling point at entry, one at exit).
 * The inline functions of mpsc_fifo.h / spsc_fifo.h are renamed IN THIS TRANSLATION UNIT
 * ONLY, so that the atomic sections do not swallow the scheduling points of the runtime
 * core's own copies (waiter queues of mutexes etc.). */
#define mpsc_fifo_push chq_mpsc_fifo_push
#define mpsc_fifo_trypop chq_mpsc_fifo_trypop
#define spsc_fifo_push chq_spsc_fifo_push
#define spsc_fifo_trypop chq_spsc_fifo_trypop
#include <stdio.h>
#include <stdlib.h>
#include <string.h>
#include "drv_ext.h"
#include "fiber_manager.h"
#include "fiber_channel.h"
/* fiber_multi_channel.h uses the same include guard as fiber_channel.h */
#undef _FIBER_CHANNEL_H_
#include "fiber_multi_channel.h"
#include "vrt_fiber.h"

enum { K_B = 1, K_U, K_SP, K_M };
typedef struct {
  char name[24];
  int kind;
  void* ch;
} chd_t;
static chd_t g_ch[8];
static int g_nch;
static char g_vals[16][8];
static int g_vals_registered;

static chd_t* ch_by_name(const char* n) {
  for (int i = 0; i < g_nch; i++)
    if (!strcmp(g_ch[i].name, n)) return &g_ch[i];
  return NULL;
}

static void reg_vals(void) {
  if (g_vals_registered) return;
  g_vals_registered = 1;
  for (int i = 1; i < 16; i++) {
    char nm[8];
    snprintf(nm, sizeof nm, "v%d", i);
    vrt_reg_name(nm, g_vals[i], sizeof g_vals[i]);
  }
}
static void* val_ptr(const char* v) {
  int i = atoi(v + 1);
  if (v[0] != 'v' || i < 1 || i > 15) {
    fprintf(stderr, "driver: bad message name %s\n", v);
    exit(64);
  }
  return g_vals[i];
}

static fiber_signal_t* make_signal(const char* chname) {
  char nm[40];
  snprintf(nm, sizeof nm, "%s_s", chname);
  fiber_signal_t* s = calloc(1, sizeof *s);
  fiber_signal_init(s);
  static const vrt_field_t f[] = {{"waiter", offsetof(fiber_signal_t, waiter), 8, VD_PTR, 0, 0}};
  vrt_reg_obj(nm, s, sizeof *s, f, 1);
  return s;
}

/* abstract content of the queues under the unbounded channels */
static void dec_uq(const void* base, char* out, size_t cap) {
  vrt_mpsc_q(&((const fiber_unbounded_channel_t*)base)->queue, out, cap);
}
static void dec_spq(const void* base, char* out, size_t cap) {
  const fiber_unbounded_sp_channel_t* c = base;
  size_t n = 0;
  n += (size_t)snprintf(out + n, cap - n, "[");
  const spsc_node_t* h = *(spsc_node_t* const*)&c->queue.head;
  int first = 1, guard = 0;
  for (const spsc_node_t* x = h ? *(spsc_node_t* const*)&h->next : NULL; x && n + 48 < cap && guard < 200;
       x = *(spsc_node_t* const*)&x->next, guard++) {
    n += (size_t)snprintf(out + n, cap - n, "%s\"%s\"", first ? "" : ",", vrt_name_of(x->data));
    first = 0;
  }
  snprintf(out + n, cap - n, "]");
}

static void atomic_sections_once(void) {
  static int done;
  if (done) return;
  done = 1;
  vrt_atomic_section("chq_mpsc_fifo_push");
  vrt_atomic_section("chq_mpsc_fifo_trypop");
  vrt_atomic_section("chq_spsc_fifo_push");
  vrt_atomic_section("chq_spsc_fifo_trypop");
}

static int ch_obj(const char* kind, const char* name, long arg, void** obj) {
  int k = !strcmp(kind, "bchan") ? K_B : !strcmp(kind, "uchan") ? K_U : !strcmp(kind, "spchan") ? K_SP
          : !strcmp(kind, "mchan") ? K_M : 0;
  if (!k) return 0;
  reg_vals();
  chd_t* d = &g_ch[g_nch++];
  snprintf(d->name, sizeof d->name, "%s", name);
  d->kind = k;
  if (k == K_B) {
    fiber_bounded_channel_t* c = fiber_bounded_channel_create((uint32_t)arg, make_signal(name));
    vrt_field_t f[2 + 8];
    char nm[8][8];
    int nf = 0;
    f[nf++] = (vrt_field_t){"high", offsetof(fiber_bounded_channel_t, high), 8, VD_U64, 0, 0};
    f[nf++] = (vrt_field_t){"low", offsetof(fiber_bounded_channel_t, low), 8, VD_U64, 0, 0};
    for (uint32_t i = 0; i < c->size && i < 8; i++) {
      snprintf(nm[i], sizeof nm[i], "b%u", i);
      f[nf++] = (vrt_field_t){nm[i], offsetof(fiber_bounded_channel_t, buffer) + i * sizeof(void*), 8, VD_PTR, 0, 0};
    }
    vrt_reg_obj(name, c, sizeof *c + c->size * sizeof(void*), f, nf);
    d->ch = c;
  } else if (k == K_U) {
    fiber_unbounded_channel_t* c = calloc(1, sizeof *c);
    fiber_unbounded_channel_init(c, make_signal(name));
    static const vrt_field_t f[] = {{"q", 0, 0, VD_CUSTOM, 0, dec_uq}};
    vrt_reg_obj(name, c, sizeof *c, f, 1);
    atomic_sections_once();
    d->ch = c;
  } else if (k == K_SP) {
    fiber_unbounded_sp_channel_t* c = calloc(1, sizeof *c);
    fiber_unbounded_sp_channel_init(c, make_signal(name));
    static const vrt_field_t f[] = {{"q", 0, 0, VD_CUSTOM, 0, dec_spq}};
    vrt_reg_obj(name, c, sizeof *c, f, 1);
    atomic_sections_once();
    d->ch = c;
  } else {
    /* the ring and the waiter list are protected by the channel's mutex: their accesses are
       diffed but are no scheduling points of their own (VF_NOSCHED) */
    fiber_multi_channel_t* c = fiber_multi_channel_create((uint32_t)arg);
    vrt_field_t f[3 + 8];
    char nm[8][8];
    int nf = 0;
    f[nf++] = (vrt_field_t){"high", offsetof(fiber_multi_channel_t, high), 8, VD_U64, VF_NOSCHED, 0};
    f[nf++] = (vrt_field_t){"low", offsetof(fiber_multi_channel_t, low), 8, VD_U64, VF_NOSCHED, 0};
    f[nf++] = (vrt_field_t){"waiters", offsetof(fiber_multi_channel_t, waiters), 8, VD_PTR, VF_NOSCHED, 0};
    for (uint32_t i = 0; i < c->size && i < 8; i++) {
      snprintf(nm[i], sizeof nm[i], "b%u", i);
      f[nf++] = (vrt_field_t){nm[i], offsetof(fiber_multi_channel_t, buffer) + i * sizeof(void*), 8, VD_PTR,
                              VF_NOSCHED, 0};
    }
    vrt_reg_obj(name, c, sizeof *c + c->size * sizeof(void*), f, nf);
    /* registered after the channel (same base address): pointers to the lock render as "<ch>_m" */
    char mn[40];
    snprintf(mn, sizeof mn, "%s_m", name);
    vrt_reg_mutex(mn, &c->lock);
    d->ch = c;
  }
  *obj = d->ch;
  return 1;
}

static int ch_op(const char* f, const char* op, const char* a1, const char* a2) {
  int is_send = !strcmp(op, "send");
  int is_try = !strcmp(op, "tryrecv"); /* poll with the try_receive variant, fiber_yield() between attempts */
  if (!is_send && !is_try && strcmp(op, "recv")) return 0;
  chd_t* d = ch_by_name(a1);
  if (!d) return 0; /* not one of our channels: leave the op to another extension */
  if (is_send) {
    void* v = val_ptr(a2);
    vrt_api("\"f\":\"%s\",\"ph\":\"call\",\"op\":\"send\",\"o\":\"%s\",\"v\":\"%s\"", f, a1, a2);
    if (d->kind == K_B) {
      fiber_bounded_channel_send(d->ch, v);
    } else if (d->kind == K_U) {
      fiber_unbounded_channel_message_t* n = malloc(sizeof *n);
      n->data = v;
      fiber_unbounded_channel_send(d->ch, n);
    } else if (d->kind == K_SP) {
      fiber_unbounded_sp_channel_message_t* n = malloc(sizeof *n);
      n->data = v;
      fiber_unbounded_sp_channel_send(d->ch, n);
    } else {
      fiber_multi_channel_send(d->ch, v);
    }
    vrt_api("\"f\":\"%s\",\"ph\":\"ret\",\"op\":\"send\",\"o\":\"%s\",\"v\":\"%s\",\"r\":1", f, a1, a2);
    return 1;
  }
  void* v = NULL;
  if (is_try) {
    if (d->kind == K_M) return 0; /* the multi channel has no try variant */
    vrt_api("\"f\":\"%s\",\"ph\":\"call\",\"op\":\"tryrecv\",\"o\":\"%s\"", f, a1);
    for (;;) {
      if (d->kind == K_B) {
        if (fiber_bounded_channel_try_receive(d->ch, &v)) break;
      } else if (d->kind == K_U) {
        fiber_unbounded_channel_message_t* n = fiber_unbounded_channel_try_receive(d->ch);
        if (n) {
          v = n->data;
          free(n);
          break;
        }
      } else {
        fiber_unbounded_sp_channel_message_t* n = fiber_unbounded_sp_channel_try_receive(d->ch);
        if (n) {
          v = n->data;
          free(n);
          break;
        }
      }
      fiber_yield();
    }
    vrt_api("\"f\":\"%s\",\"ph\":\"ret\",\"op\":\"tryrecv\",\"o\":\"%s\",\"v\":\"%s\",\"r\":1", f, a1, vrt_name_of(v));
    return 1;
  }
  vrt_api("\"f\":\"%s\",\"ph\":\"call\",\"op\":\"recv\",\"o\":\"%s\"", f, a1);
  if (d->kind == K_B) {
    v = fiber_bounded_channel_receive(d->ch);
  } else if (d->kind == K_U) {
    fiber_unbounded_channel_message_t* n = fiber_unbounded_channel_receive(d->ch);
    v = n->data;
    free(n);
  } else if (d->kind == K_SP) {
    fiber_unbounded_sp_channel_message_t* n = fiber_unbounded_sp_channel_receive(d->ch);
    v = n->data;
    free(n);
  } else {
    v = fiber_multi_channel_receive(d->ch);
  }
  vrt_api("\"f\":\"%s\",\"ph\":\"ret\",\"op\":\"recv\",\"o\":\"%s\",\"v\":\"%s\",\"r\":1", f, a1, vrt_name_of(v));
  return 1;
}
DRV_EXT_REGISTER(channel, ch_op, ch_obj, NULL)
