/* fiber-regime driver extension: fiber_semaphore (property C06)
 *
 * objects:  sem <name> <initial value>
 * ops:      semwait s | semtrywait s | sempost s | semvalue s
 *
 * Tracked memory of a semaphore `s1`:
 *   s1.counter  the atomic counter
 *   s1.q        abstract content of the MPMC waiter FIFO: fiber names, oldest first
 *   s1.waiters  address anchor only: makes `&sem->waiters` (the value of the manager
 *               slot mpmc_to_push.fifo) render as "s1.waiters"
 * The MPMC queue, its node free-list (ring buffer) and the hazard-pointer machinery
 * are atomic sections in this regime (their internals belong to C13/C14/C16).
 */
#include <stdio.h>
#include <stdlib.h>
#include <string.h>
#include "drv_ext.h"
#include "fiber_semaphore.h"
#include "vrt_fiber.h"

/* head is a dummy node; the elements are linked through `prev` from head towards tail */
static void dec_semq(const void* base, char* out, size_t cap) {
  const fiber_semaphore_t* s = base;
  size_t n = 0;
  n += (size_t)snprintf(out + n, cap - n, "[");
  const mpmc_fifo_node_t* h = (const mpmc_fifo_node_t*)s->waiters.head;
  int first = 1, guard = 0;
  for (const mpmc_fifo_node_t* x = h ? h->prev : NULL; x && n + 48 < cap && guard < 200; x = x->prev, guard++) {
    n += (size_t)snprintf(out + n, cap - n, "%s\"%s\"", first ? "" : ",", vrt_name_of(x->value));
    first = 0;
  }
  snprintf(out + n, cap - n, "]");
}

static int s_obj(const char* kind, const char* name, long arg, void** obj) {
  if (strcmp(kind, "sem")) return 0;
  fiber_semaphore_t* s = calloc(1, sizeof *s);
  fiber_semaphore_init(s, (int)arg);
  static const vrt_field_t f[] = {
      {"counter", offsetof(fiber_semaphore_t, counter), 4, VD_I32, 0, 0},
      {"q", 0, 0, VD_CUSTOM, 0, dec_semq},
      {"waiters", offsetof(fiber_semaphore_t, waiters), 8, VD_PTR, VF_NOSCHED | VF_NOEPOCH, 0},
  };
  vrt_reg_obj(name, s, sizeof *s, f, 3);
  *obj = s;
  return 1;
}

static int s_op(const char* f, const char* op, const char* a1, const char* a2) {
  (void)a2;
  if (!strcmp(op, "semwait")) {
    vrt_api("\"f\":\"%s\",\"ph\":\"call\",\"op\":\"semwait\",\"o\":\"%s\"", f, a1);
    int r = fiber_semaphore_wait(drv_obj("sem", a1));
    vrt_api("\"f\":\"%s\",\"ph\":\"ret\",\"op\":\"semwait\",\"o\":\"%s\",\"r\":%d", f, a1, r);
    return 1;
  }
  if (!strcmp(op, "semtrywait")) {
    vrt_api("\"f\":\"%s\",\"ph\":\"call\",\"op\":\"semtrywait\",\"o\":\"%s\"", f, a1);
    int r = fiber_semaphore_trywait(drv_obj("sem", a1));
    vrt_api("\"f\":\"%s\",\"ph\":\"ret\",\"op\":\"semtrywait\",\"o\":\"%s\",\"r\":%d", f, a1, r);
    return 1;
  }
  if (!strcmp(op, "sempost")) {
    vrt_api("\"f\":\"%s\",\"ph\":\"call\",\"op\":\"sempost\",\"o\":\"%s\"", f, a1);
    int r = fiber_semaphore_post(drv_obj("sem", a1));
    vrt_api("\"f\":\"%s\",\"ph\":\"ret\",\"op\":\"sempost\",\"o\":\"%s\",\"r\":%d", f, a1, r);
    return 1;
  }
  if (!strcmp(op, "semvalue")) {
    vrt_api("\"f\":\"%s\",\"ph\":\"call\",\"op\":\"semvalue\",\"o\":\"%s\"", f, a1);
    int v = fiber_semaphore_getvalue(drv_obj("sem", a1));
    vrt_api("\"f\":\"%s\",\"ph\":\"ret\",\"op\":\"semvalue\",\"o\":\"%s\",\"r\":1,\"n\":%d", f, a1, v);
    return 1;
  }
  return 0;
}

static void s_setup(void) {
  static const char* secs[] = {"mpmc_fifo_push",
                               "mpmc_fifo_trypop",
                               "fiber_manager_get_mpmc_node",
                               "fiber_manager_return_mpmc_node",
                               "fiber_manager_return_mpmc_node_internal",
                               "fiber_manager_get_hazard_record",
                               "lockfree_ring_buffer_trypush",
                               "lockfree_ring_buffer_trypop",
                               "hazard_pointer_free",
                               "hazard_pointer_scan"};
  for (unsigned i = 0; i < sizeof secs / sizeof secs[0]; i++) vrt_atomic_section(secs[i]);
}
DRV_EXT_REGISTER(sem, s_op, s_obj, s_setup)
