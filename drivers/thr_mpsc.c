/* thread-regime driver for include/mpsc_fifo.h (property C15) */
#include "mpsc_fifo.h"
#include "thr_common.h"

static mpsc_fifo_t q;
#define MAXN 16
static mpsc_fifo_node_t* nodes[MAXN];
static char node_names[MAXN][16];
static int nnodes;
static char vals[32][8];
static char val_names[32][16];
static int nvals;
static __thread mpsc_fifo_node_t* lastpop;

static const vrt_field_t node_fields[] = {
    {"data", offsetof(mpsc_fifo_node_t, data), 8, VD_PTR, 0, 0},
    {"next", offsetof(mpsc_fifo_node_t, next), 8, VD_PTR, 0, 0},
};
static void* val_ptr(const char* name) {
  for (int i = 0; i < nvals; i++)
    if (!strcmp(val_names[i], name)) return vals[i];
  snprintf(val_names[nvals], 16, "%s", name);
  vrt_reg_name(name, vals[nvals], 8);
  return vals[nvals++];
}
static mpsc_fifo_node_t* node_by_name(const char* n) {
  for (int i = 0; i < nnodes; i++)
    if (!strcmp(node_names[i], n)) return nodes[i];
  fprintf(stderr, "unknown node %s\n", n);
  exit(64);
}
static void drv_setup(void) {
  mpsc_fifo_init(&q);
  static const vrt_field_t qf[] = {
      {"head", offsetof(mpsc_fifo_t, head), 8, VD_PTR, 0, 0},
      {"tail", offsetof(mpsc_fifo_t, tail), 8, VD_PTR, 0, 0},
  };
  vrt_reg_obj("stub", (void*)q.head, sizeof(mpsc_fifo_node_t), node_fields, 2);
  const char* ns = t_param("nodes");
  char buf[256];
  snprintf(buf, sizeof buf, "%s", ns ? ns : "");
  for (char* t = strtok(buf, " "); t; t = strtok(NULL, " ")) {
    nodes[nnodes] = calloc(1, sizeof(mpsc_fifo_node_t));
    snprintf(node_names[nnodes], 16, "%s", t);
    vrt_reg_obj(t, nodes[nnodes], sizeof(mpsc_fifo_node_t), node_fields, 2);
    nnodes++;
  }
  /* pre-register every value name used by the scripts (registration is not thread safe) */
  for (int t = 0; t < t_nthreads; t++)
    for (int i = 0; i < t_nops[t]; i++) {
      if (!strcmp(t_ops[t][i].op, "push")) val_ptr(t_ops[t][i].a2);
      if (!strcmp(t_ops[t][i].op, "repush")) val_ptr(t_ops[t][i].a1);
    }
  vrt_reg_obj("q", &q, sizeof q, qf, 2);
}
static void do_push(int tid, mpsc_fifo_node_t* n, const char* v) {
  vrt_api("\"f\":\"t%d\",\"ph\":\"call\",\"op\":\"push\",\"o\":\"%s\",\"v\":\"%s\"", tid, vrt_name_of(n), v);
  n->data = val_ptr(v);
  mpsc_fifo_push(&q, n);
  vrt_api("\"f\":\"t%d\",\"ph\":\"ret\",\"op\":\"push\",\"o\":\"%s\",\"v\":\"%s\"", tid, vrt_name_of(n), v);
}
static void drv_op(int tid, const char* op, const char* a1, const char* a2, const char* a3) {
  (void)a3;
  if (!strcmp(op, "push")) {
    do_push(tid, node_by_name(a1), a2);
  } else if (!strcmp(op, "pop")) {
    vrt_api("\"f\":\"t%d\",\"ph\":\"call\",\"op\":\"pop\"", tid);
    mpsc_fifo_node_t* n = mpsc_fifo_trypop(&q);
    lastpop = n;
    vrt_api("\"f\":\"t%d\",\"ph\":\"ret\",\"op\":\"pop\",\"o\":\"%s\",\"v\":\"%s\"", tid, vrt_name_of(n),
            n ? vrt_name_of(n->data) : "null");
  } else if (!strcmp(op, "repush")) {
    if (lastpop) do_push(tid, lastpop, a1);
  } else {
    fprintf(stderr, "unknown op %s\n", op);
    exit(64);
  }
}
