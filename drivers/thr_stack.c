/* thread-regime driver for include/mpmc_stack.h (property C20): push + flush-all stack.
 * The structure is a single atomic head pointer (8-byte CAS in push, exchange in flush): it does
 * NOT use the double-word CAS; it is modelled as it is.
 *
 * script ops:  push <node>   mpmc_stack_push of a node this thread owns
 *              flush         mpmc_stack_lifo_flush; the driver walks the returned chain, reports every
 *                            node as an api "item" record (chain order), stores the first node in the
 *                            tracked field t<i>.got and appends all nodes to the thread's private hand
 *              fflush        same with mpmc_stack_fifo_flush (chain reversed in place)
 *              repush        push the OLDEST node of the hand again (immediate reuse); no-op if empty
 */
#include "mpmc_stack.h"
#include "thr_common.h"

static mpmc_stack_t q;
#define MAXN 16
static mpmc_stack_node_t* nodes[MAXN];
static char node_names[MAXN][16];
static int nnodes;
typedef struct {
  mpmc_stack_node_t* got;
  char pad[56];
} tres_t;
static tres_t res[TMAXT];
static __thread mpmc_stack_node_t* hand[TMAXOPS * 4];
static __thread int hand_lo, hand_hi;

static const vrt_field_t node_fields[] = {
    {"next", offsetof(mpmc_stack_node_t, next), 8, VD_PTR, 0, 0},
};
static mpmc_stack_node_t* node_by_name(const char* n) {
  for (int i = 0; i < nnodes; i++)
    if (!strcmp(node_names[i], n)) return nodes[i];
  fprintf(stderr, "unknown node %s\n", n);
  exit(64);
}
static void drv_setup(void) {
  mpmc_stack_init(&q);
  static const vrt_field_t qf[] = {{"head", offsetof(mpmc_stack_t, head), 8, VD_PTR, 0, 0}};
  static const vrt_field_t tf[] = {{"got", offsetof(tres_t, got), 8, VD_PTR, 0, 0}};
  const char* ns = t_param("nodes");
  char buf[256];
  snprintf(buf, sizeof buf, "%s", ns ? ns : "");
  for (char* t = strtok(buf, " "); t; t = strtok(NULL, " ")) {
    nodes[nnodes] = calloc(1, sizeof(mpmc_stack_node_t));
    mpmc_stack_node_init(nodes[nnodes], NULL);
    snprintf(node_names[nnodes], 16, "%s", t);
    vrt_reg_obj(t, nodes[nnodes], sizeof(mpmc_stack_node_t), node_fields, 1);
    nnodes++;
  }
  for (int t = 0; t < t_nthreads; t++) {
    char nm[16];
    snprintf(nm, sizeof nm, "t%d", t);
    vrt_reg_obj(nm, &res[t], sizeof(tres_t), tf, 1);
  }
  vrt_reg_obj("q", &q, sizeof q, qf, 1);
}
static void do_push(int tid, mpmc_stack_node_t* n) {
  vrt_api("\"f\":\"t%d\",\"ph\":\"call\",\"op\":\"push\",\"o\":\"%s\"", tid, vrt_name_of(n));
  mpmc_stack_push(&q, n);
  vrt_api("\"f\":\"t%d\",\"ph\":\"ret\",\"op\":\"push\",\"o\":\"%s\"", tid, vrt_name_of(n));
}
static void drv_op(int tid, const char* op, const char* a1, const char* a2, const char* a3) {
  (void)a2;
  (void)a3;
  if (!strcmp(op, "push")) {
    do_push(tid, node_by_name(a1));
  } else if (!strcmp(op, "flush") || !strcmp(op, "fflush")) {
    vrt_api("\"f\":\"t%d\",\"ph\":\"call\",\"op\":\"%s\"", tid, op);
    mpmc_stack_node_t* l = op[1] == 'f' ? mpmc_stack_fifo_flush(&q) : mpmc_stack_lifo_flush(&q);
    int cnt = 0;
    for (mpmc_stack_node_t* n = l; n && cnt < MAXN + 1; n = n->next, cnt++) {
      vrt_api("\"f\":\"t%d\",\"ph\":\"item\",\"op\":\"%s\",\"o\":\"%s\"", tid, op, vrt_name_of(n));
      hand[hand_hi++] = n;
    }
    vrt_api("\"f\":\"t%d\",\"ph\":\"ret\",\"op\":\"%s\",\"o\":\"%s\",\"n\":%d", tid, op, vrt_name_of(l), cnt);
    res[tid].got = l; /* tracked: the spec must explain which chain this thread received */
  } else if (!strcmp(op, "repush")) {
    if (hand_lo < hand_hi) do_push(tid, hand[hand_lo++]);
  } else {
    fprintf(stderr, "unknown op %s\n", op);
    exit(64);
  }
}
