/* fiber-regime driver extension: fiber_rwlock (property C07)
 *
 * The 64-bit state word of the lock is registered as two raw 32-bit halves
 * ("lo", "hi": plain loads of rwlock->state.blob are scheduling points because
 * they hit a registered range) plus the decoded view "st" =
 * [write_locked, reader_count, waiting_readers, waiting_writers] which is what
 * the specification projects (MemAt(r, "st")).  The halves are modelled too
 * (they are an injective image of the four fields), so a write that would touch
 * bits outside the four fields' meaning cannot hide. */
#include <stdio.h>
#include <stdlib.h>
#include <string.h>
#include "drv_ext.h"
#include "fiber_rwlock.h"
#include "vrt_fiber.h"

static void dec_st(const void* base, char* out, size_t cap) {
  fiber_rwlock_state_t s;
  memcpy(&s.blob, base, sizeof s.blob);
  snprintf(out, cap, "[%u,%u,%u,%u]", (unsigned)s.state.write_locked, (unsigned)s.state.reader_count,
           (unsigned)s.state.waiting_readers, (unsigned)s.state.waiting_writers);
}
static void dec_rq(const void* base, char* out, size_t cap) { vrt_mpsc_q(&((const fiber_rwlock_t*)base)->read_waiters, out, cap); }
static void dec_rtailf(const void* base, char* out, size_t cap) { vrt_mpsc_tailf(&((const fiber_rwlock_t*)base)->read_waiters, out, cap); }
static void dec_wq(const void* base, char* out, size_t cap) { vrt_mpsc_q(&((const fiber_rwlock_t*)base)->write_waiters, out, cap); }
static void dec_wtailf(const void* base, char* out, size_t cap) { vrt_mpsc_tailf(&((const fiber_rwlock_t*)base)->write_waiters, out, cap); }

static int rw_obj(const char* kind, const char* name, long arg, void** obj) {
  (void)arg;
  if (strcmp(kind, "rwlock")) return 0;
  fiber_rwlock_t* l = calloc(1, sizeof *l);
  if (!fiber_rwlock_init(l)) {
    fprintf(stderr, "driver: fiber_rwlock_init failed\n");
    exit(64);
  }
  static const vrt_field_t f[] = {
      {"lo", offsetof(fiber_rwlock_t, state), 4, VD_U32, 0, 0},
      {"hi", offsetof(fiber_rwlock_t, state) + 4, 4, VD_U32, 0, 0},
      {"st", 0, 0, VD_CUSTOM, 0, dec_st},
      {"rq", 0, 0, VD_CUSTOM, 0, dec_rq},
      {"rtailf", 0, 0, VD_CUSTOM, 0, dec_rtailf},
      {"wq", 0, 0, VD_CUSTOM, 0, dec_wq},
      {"wtailf", 0, 0, VD_CUSTOM, 0, dec_wtailf},
  };
  vrt_reg_obj(name, l, sizeof *l, f, (int)(sizeof f / sizeof f[0]));
  *obj = l;
  return 1;
}

static int call0(const char* f, const char* op, const char* o, int (*fn)(fiber_rwlock_t*)) {
  vrt_api("\"f\":\"%s\",\"ph\":\"call\",\"op\":\"%s\",\"o\":\"%s\"", f, op, o);
  int r = fn(drv_obj("rwlock", o));
  vrt_api("\"f\":\"%s\",\"ph\":\"ret\",\"op\":\"%s\",\"o\":\"%s\",\"r\":%d", f, op, o, r);
  return r;
}

static int rw_op(const char* f, const char* op, const char* a1, const char* a2) {
  (void)a2;
  if (!strcmp(op, "rdlock")) {
    call0(f, "rdlock", a1, fiber_rwlock_rdlock);
  } else if (!strcmp(op, "wrlock")) {
    call0(f, "wrlock", a1, fiber_rwlock_wrlock);
  } else if (!strcmp(op, "tryrdlock")) {
    call0(f, "tryrdlock", a1, fiber_rwlock_tryrdlock);
  } else if (!strcmp(op, "trywrlock")) {
    call0(f, "trywrlock", a1, fiber_rwlock_trywrlock);
  } else if (!strcmp(op, "rdunlock")) {
    call0(f, "rdunlock", a1, fiber_rwlock_rdunlock);
  } else if (!strcmp(op, "wrunlock")) {
    call0(f, "wrunlock", a1, fiber_rwlock_wrunlock);
  } else if (!strcmp(op, "tryrdun")) { /* tryrdlock; rdunlock if it succeeded */
    if (call0(f, "tryrdlock", a1, fiber_rwlock_tryrdlock)) call0(f, "rdunlock", a1, fiber_rwlock_rdunlock);
  } else if (!strcmp(op, "trywrun")) { /* trywrlock; wrunlock if it succeeded */
    if (call0(f, "trywrlock", a1, fiber_rwlock_trywrlock)) call0(f, "wrunlock", a1, fiber_rwlock_wrunlock);
  } else
    return 0;
  return 1;
}
DRV_EXT_REGISTER(rwlock, rw_op, rw_obj, NULL)
