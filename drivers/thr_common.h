/* common skeleton of the thread-regime drivers: scripts per kernel thread
 * (VRT_SCEN), main thread is t0 and runs its own script too.
 *
 *   thread t0: push n1 v1; pop
 *   thread t1: push n2 v2
 *
 * The including file defines:  static void drv_setup(void);   (create + register objects)
 *                              static void drv_op(int tid, const char* op, const char* a1, const char* a2, const char* a3);
 */
#ifndef THR_COMMON_H
#define THR_COMMON_H
#include <pthread.h>
#include <stdio.h>
#include <stdlib.h>
#include <string.h>

#include "vrt.h"

#define TMAXT 8
#define TMAXOPS 48
typedef struct {
  char op[16], a1[24], a2[24], a3[24];
} top_t;
static top_t t_ops[TMAXT][TMAXOPS];
static int t_nops[TMAXT];
static int t_nthreads;
static char t_extra[16][64];
static int t_nextra;

static void drv_setup(void);
static void drv_op(int tid, const char* op, const char* a1, const char* a2, const char* a3);

static char* t_trim(char* s) {
  while (*s == ' ' || *s == '\t') s++;
  char* e = s + strlen(s);
  while (e > s && (e[-1] == ' ' || e[-1] == '\t' || e[-1] == '\n')) *--e = 0;
  return s;
}
static void t_parse(const char* text) {
  char* copy = strdup(text);
  char* save = NULL;
  for (char* line = strtok_r(copy, "\n", &save); line; line = strtok_r(NULL, "\n", &save)) {
    line = t_trim(line);
    if (!strncmp(line, "thread t", 8)) {
      int tid = atoi(line + 8);
      char* colon = strchr(line, ':');
      if (!colon || tid < 0 || tid >= TMAXT) continue;
      if (tid + 1 > t_nthreads) t_nthreads = tid + 1;
      char* s2 = NULL;
      for (char* o = strtok_r(colon + 1, ";", &s2); o; o = strtok_r(NULL, ";", &s2)) {
        o = t_trim(o);
        if (!*o) continue;
        top_t* op = &t_ops[tid][t_nops[tid]++];
        memset(op, 0, sizeof *op);
        sscanf(o, "%15s %23s %23s %23s", op->op, op->a1, op->a2, op->a3);
      }
    } else if (*line) {
      snprintf(t_extra[t_nextra++], 64, "%s", line);
    }
  }
  free(copy);
}
/* extra scenario lines ("cap 4", "nodes n1 n2"): value after the key, or NULL */
static const char* t_param(const char* key) {
  size_t n = strlen(key);
  for (int i = 0; i < t_nextra; i++)
    if (!strncmp(t_extra[i], key, n) && t_extra[i][n] == ' ') return t_extra[i] + n + 1;
  return NULL;
}
static void t_run(int tid) {
  for (int i = 0; i < t_nops[tid]; i++) drv_op(tid, t_ops[tid][i].op, t_ops[tid][i].a1, t_ops[tid][i].a2, t_ops[tid][i].a3);
}
static void* t_main(void* p) {
  t_run((int)(long)p);
  return NULL;
}
int main(void) {
  vrt_init();
  const char* scen = vrt_getenv("VRT_SCEN", NULL);
  if (!scen) {
    fprintf(stderr, "VRT_SCEN not set\n");
    return 64;
  }
  t_parse(scen);
  drv_setup();
  pthread_t th[TMAXT];
  for (int i = 1; i < t_nthreads; i++) pthread_create(&th[i], NULL, t_main, (void*)(long)i);
  vrt_start();
  t_run(0);
  for (int i = 1; i < t_nthreads; i++) pthread_join(th[i], NULL);
  vrt_end();
}
#endif
