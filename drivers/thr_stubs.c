/* thread-regime binaries link the whole library; the fiber-created hook needs a definition */
#include "fiber.h"
void libfiber_verif_fiber_created(fiber_t* f, int from_thread) {
  (void)f;
  (void)from_thread;
}
