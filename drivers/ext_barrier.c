/* fiber-regime driver extension: fiber_barrier (property C12) */
#include <stdio.h>
#include <stdlib.h>
#include <string.h>
#include "drv_ext.h"
#include "fiber_barrier.h"
#include "vrt_fiber.h"

static void dec_q0(const void* base, char* out, size_t cap) { vrt_mpsc_q(&((const fiber_barrier_t*)base)->waiters[0], out, cap); }
static void dec_tailf0(const void* base, char* out, size_t cap) { vrt_mpsc_tailf(&((const fiber_barrier_t*)base)->waiters[0], out, cap); }
static void dec_q1(const void* base, char* out, size_t cap) { vrt_mpsc_q(&((const fiber_barrier_t*)base)->waiters[1], out, cap); }
static void dec_tailf1(const void* base, char* out, size_t cap) { vrt_mpsc_tailf(&((const fiber_barrier_t*)base)->waiters[1], out, cap); }

/* counter rendered relative to a preset base (VRT_BARRIER_BASE, a multiple of 2*count) so that
 * scenarios can start just below 2^32 and cross it */
static uint64_t g_base;
static void dec_counter(const void* base, char* out, size_t cap) {
  snprintf(out, cap, "%lld", (long long)((uint64_t)((const fiber_barrier_t*)base)->counter - g_base));
}
static int b_obj(const char* kind, const char* name, long arg, void** obj) {
  if (strcmp(kind, "barrier")) return 0;
  fiber_barrier_t* b = calloc(1, sizeof *b);
  fiber_barrier_init(b, (uint32_t)arg);
  g_base = (uint64_t)strtoull(vrt_getenv("VRT_BARRIER_BASE", "0"), NULL, 10);
  b->counter = g_base;
  static const vrt_field_t f[] = {
      {"ctr", offsetof(fiber_barrier_t, counter), 1, VD_U8, VF_NOEPOCH, 0}, /* low byte: makes accesses scheduling points */
      {"counter", 0, 0, VD_CUSTOM, 0, dec_counter},
      {"q0", 0, 0, VD_CUSTOM, 0, dec_q0},
      {"tailf0", 0, 0, VD_CUSTOM, 0, dec_tailf0},
      {"q1", 0, 0, VD_CUSTOM, 0, dec_q1},
      {"tailf1", 0, 0, VD_CUSTOM, 0, dec_tailf1},
  };
  vrt_reg_obj(name, b, sizeof *b, f, 6);
  *obj = b;
  return 1;
}
static int b_op(const char* f, const char* op, const char* a1, const char* a2) {
  (void)a2;
  if (strcmp(op, "barrier")) return 0;
  vrt_api("\"f\":\"%s\",\"ph\":\"call\",\"op\":\"barrier\",\"o\":\"%s\"", f, a1);
  int r = fiber_barrier_wait(drv_obj("barrier", a1));
  vrt_api("\"f\":\"%s\",\"ph\":\"ret\",\"op\":\"barrier\",\"o\":\"%s\",\"r\":%d", f, a1, r);
  return 1;
}
DRV_EXT_REGISTER(barrier, b_op, b_obj, NULL)
