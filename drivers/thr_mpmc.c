/* thread-regime driver for include/mpmc_fifo.h + include/hazard_pointer.h +
 * src/hazard_pointer.c (properties C13, C14; spec/thread/MpmcFifoHP.tla.in).
 *
 * scenario parameters (extra lines of VRT_SCEN):
 *   nodes n2 n0 n3 n1   node names IN ADDRESS ORDER: all nodes live in ONE array, the i-th name
 *                       is array element i (so the address pattern seen by the qsort + binary
 *                       search of hazard_pointer_scan is chosen by the scenario)
 *   dummy n0            initial (stub) node of the fifo
 *   pool n1 n2          initial free list (LIFO: first name is handed out first); the other nodes
 *                       are "held" by the scripts (protect / retire operations name them)
 *   regs 0 1            threads whose hazard record is created in drv_setup, in this order
 *   threshold T         white box: every record created in drv_setup gets retire_threshold = T
 *                       (the struct is public) and a scratch plist large enough for any scan
 *   gc pool|free        reclamation callback: give the node back to the free list (ABA by reuse)
 *                       or free() it (quarantined by the runtime: any later access = dead_access)
 * operations:
 *   push v | pop | reg | thr T | protect k n | unprotect k | retire n | scan
 */
#include "mpmc_fifo.h"
#include <sys/mman.h>
#include "thr_common.h"

#define HPK MPMC_HAZARD_COUNT
#define MAXN 16
#define RECSZ (sizeof(hazard_pointer_thread_record_t) + HPK * sizeof(hazard_node_t*))

static _Atomic(hazard_pointer_thread_record_t*) hp_head;
static mpmc_fifo_t q;
/* nodes live at arena_base + i * arena_stride: by default a dense array; with the scenario
 * parameter `spread 1` the stride is 0x90000000 bytes inside one sparse mapping, so that the
 * addresses of different nodes differ by >= 2 GiB modulo 4 GiB (address patterns that matter
 * to the pointer comparator of hazard_pointer_scan) */
static char* arena_base;
static size_t arena_stride = sizeof(mpmc_fifo_node_t);
static mpmc_fifo_node_t arena_dense[MAXN];
#define ARENA(i) ((mpmc_fifo_node_t*)(arena_base + (size_t)(i) * arena_stride))
static char node_names[MAXN][16];
static int nnodes;
static int free_stack[MAXN + 1]; /* [0] = count, then indices, top of stack last */
static int gc_free;
static int big_plist;
static hazard_pointer_thread_record_t* recs[TMAXT];
static union {
  char b[RECSZ];
  long align;
} recbuf[TMAXT];
static int want_rec = -1; /* threads are serialised and there is no scheduling point between
                             setting this and the calloc() of create_and_push */
static char vals[32][8];
static char val_names[32][16];
static int nvals;

/* hazard_pointer_thread_record_create_and_push calloc()s the record and links it before it
   returns; the record must be registered with the runtime BEFORE that, so the record memory is
   handed out from a pre-registered static buffer */
void* calloc(size_t n, size_t sz) {
  if (want_rec >= 0 && n * sz == RECSZ) {
    void* p = recbuf[want_rec].b;
    want_rec = -1;
    return p;
  }
  void* p = malloc(n * sz);
  if (p) memset(p, 0, n * sz);
  return p;
}

static void* val_ptr(const char* name) {
  for (int i = 0; i < nvals; i++)
    if (!strcmp(val_names[i], name)) return vals[i];
  snprintf(val_names[nvals], 16, "%s", name);
  vrt_reg_name(name, vals[nvals], 8);
  return vals[nvals++];
}
static int node_idx(const char* n) {
  for (int i = 0; i < nnodes; i++)
    if (!strcmp(node_names[i], n)) return i;
  fprintf(stderr, "unknown node %s\n", n);
  exit(64);
}
static void node_gc(void* gc_data, hazard_node_t* h) {
  (void)gc_data;
  mpmc_fifo_node_t* n = (mpmc_fifo_node_t*)h;
  if (gc_free)
    free(n); /* intercepted (vrt_watch_free): node becomes dead */
  else
    free_stack[++free_stack[0]] = (int)(((char*)n - arena_base) / arena_stride);
}
static void render_pool(const void* base, char* out, size_t cap) {
  const int* st = base;
  size_t n = (size_t)snprintf(out, cap, "[");
  for (int i = st[0]; i >= 1 && n + 24 < cap; i--)
    n += (size_t)snprintf(out + n, cap - n, "%s\"%s\"", i == st[0] ? "" : ",", node_names[st[i]]);
  snprintf(out + n, cap - n, "]");
}
/* retired list of a record, most recently retired first */
static void render_rl(const void* base, char* out, size_t cap) {
  const hazard_pointer_thread_record_t* r = base;
  size_t n = (size_t)snprintf(out, cap, "[");
  int first = 1, guard = 0;
  for (hazard_node_t* h = r->retired_list; h && n + 24 < cap && guard < 2 * MAXN; h = h->next, guard++) {
    n += (size_t)snprintf(out + n, cap - n, "%s\"%s\"", first ? "" : ",", vrt_name_of(h));
    first = 0;
  }
  snprintf(out + n, cap - n, "]");
}
static const vrt_field_t node_fields[] = {
    {"value", offsetof(mpmc_fifo_node_t, value), 8, VD_PTR, 0, 0},
    {"prev", offsetof(mpmc_fifo_node_t, prev), 8, VD_PTR, 0, 0},
};
static const vrt_field_t rec_fields[] = {
    {"next", offsetof(hazard_pointer_thread_record_t, next), 8, VD_PTR, 0, 0},
    {"thr", offsetof(hazard_pointer_thread_record_t, retire_threshold), 8, VD_U64, 0, 0},
    {"rcount", offsetof(hazard_pointer_thread_record_t, retired_count), 8, VD_U64, VF_NOSCHED, 0},
    {"hp0", offsetof(hazard_pointer_thread_record_t, hazard_pointers), 8, VD_PTR, 0, 0},
    {"hp1", offsetof(hazard_pointer_thread_record_t, hazard_pointers) + 8, 8, VD_PTR, 0, 0},
    {"rl", 0, 0, VD_CUSTOM, 0, render_rl},
};
static void give_plist(hazard_pointer_thread_record_t* r) {
  if (!big_plist) return;
  r->plist_size = 64;
  r->plist = (hazard_node_t**)malloc(64 * sizeof(*r->plist));
}
static void create_record(int tid) {
  want_rec = tid;
  recs[tid] = hazard_pointer_thread_record_create_and_push(&hp_head, HPK);
  if ((void*)recs[tid] != (void*)recbuf[tid].b) {
    fprintf(stderr, "record not placed\n");
    exit(64);
  }
  give_plist(recs[tid]);
}
static void drv_setup(void) {
  char buf[256];
  const char* s;
  gc_free = (s = t_param("gc")) && !strcmp(s, "free");
  big_plist = t_param("threshold") != NULL;
  for (int t = 0; t < t_nthreads; t++)
    for (int i = 0; i < t_nops[t]; i++)
      if (!strcmp(t_ops[t][i].op, "thr")) big_plist = 1;
  arena_base = (char*)arena_dense;
  if ((s = t_param("spread")) && atoi(s)) {
    arena_stride = 0x90000000UL;
    arena_base = mmap(NULL, arena_stride * MAXN, PROT_READ | PROT_WRITE, MAP_PRIVATE | MAP_ANONYMOUS | MAP_NORESERVE, -1, 0);
    if (arena_base == MAP_FAILED) {
      fprintf(stderr, "spread arena: mmap failed\n");
      exit(65);
    }
  }
  snprintf(buf, sizeof buf, "%s", (s = t_param("nodes")) ? s : "");
  for (char* t = strtok(buf, " "); t; t = strtok(NULL, " ")) {
    snprintf(node_names[nnodes], 16, "%s", t);
    ARENA(nnodes)->hazard.gc_function = node_gc;
    nnodes++;
  }
  mpmc_fifo_init(&q, ARENA(node_idx((s = t_param("dummy")) ? s : "n0")));
  snprintf(buf, sizeof buf, "%s", (s = t_param("pool")) ? s : "");
  {
    int tmp[MAXN], k = 0;
    for (char* t = strtok(buf, " "); t; t = strtok(NULL, " ")) tmp[k++] = node_idx(t);
    for (int i = k - 1; i >= 0; i--) free_stack[++free_stack[0]] = tmp[i];
  }
  snprintf(buf, sizeof buf, "%s", (s = t_param("regs")) ? s : "");
  for (char* t = strtok(buf, " "); t; t = strtok(NULL, " ")) create_record(atoi(t));
  if ((s = t_param("threshold")))
    for (int t = 0; t < TMAXT; t++)
      if (recs[t]) recs[t]->retire_threshold = (size_t)atol(s);

  for (int t = 0; t < t_nthreads; t++)
    for (int i = 0; i < t_nops[t]; i++)
      if (!strcmp(t_ops[t][i].op, "push")) val_ptr(t_ops[t][i].a1);
  for (int i = 0; i < nnodes; i++) {
    vrt_reg_obj(node_names[i], ARENA(i), sizeof(mpmc_fifo_node_t), node_fields, 2);
    vrt_watch_free(ARENA(i));
  }
  for (int t = 0; t < t_nthreads; t++) {
    char nm[16];
    snprintf(nm, sizeof nm, "r%d", t);
    vrt_reg_obj(nm, recbuf[t].b, RECSZ, rec_fields, 6);
  }
  static const vrt_field_t qf[] = {
      {"head", offsetof(mpmc_fifo_t, head), 8, VD_PTR, 0, 0},
      {"tail", offsetof(mpmc_fifo_t, tail), 8, VD_PTR, 0, 0},
  };
  vrt_reg_obj("q", &q, sizeof q, qf, 2);
  static const vrt_field_t hf[] = {{"head", 0, 8, VD_PTR, 0, 0}};
  vrt_reg_obj("hpl", &hp_head, sizeof hp_head, hf, 1);
  static const vrt_field_t pf[] = {{"list", 0, 0, VD_CUSTOM, 0, render_pool}};
  vrt_reg_obj("pool", free_stack, sizeof free_stack, pf, 1);
}
static void do_push(int tid, const char* v) {
  if (!free_stack[0]) { /* no free node: the operation is skipped (the model does the same) */
    vrt_note("\"f\":\"t%d\",\"what\":\"push %s skipped: pool empty\"", tid, v);
    return;
  }
  vrt_api("\"f\":\"t%d\",\"ph\":\"call\",\"op\":\"push\",\"v\":\"%s\"", tid, v);
  mpmc_fifo_node_t* n = ARENA(free_stack[free_stack[0]--]);
  n->value = val_ptr(v);
  mpmc_fifo_push(recs[tid], &q, n);
  vrt_api("\"f\":\"t%d\",\"ph\":\"ret\",\"op\":\"push\",\"v\":\"%s\"", tid, v);
}
static void do_thr(int tid, size_t v) { atomic_store(&recs[tid]->retire_threshold, v); }
static void drv_op(int tid, const char* op, const char* a1, const char* a2, const char* a3) {
  (void)a3;
  /* hazard-pointer level operations have no API records: a note closes the running step so that
     the private effects of this operation (retired list) are not merged into the last step of
     the previous operation */
  if (strcmp(op, "push") && strcmp(op, "pop")) vrt_note("\"f\":\"t%d\",\"what\":\"%s %s %s\"", tid, op, a1, a2);
  if (!strcmp(op, "push")) {
    do_push(tid, a1);
  } else if (!strcmp(op, "pop")) {
    vrt_api("\"f\":\"t%d\",\"ph\":\"call\",\"op\":\"pop\"", tid);
    void* v = mpmc_fifo_trypop(recs[tid], &q);
    vrt_api("\"f\":\"t%d\",\"ph\":\"ret\",\"op\":\"pop\",\"v\":\"%s\"", tid, vrt_name_of(v));
  } else if (!strcmp(op, "reg")) {
    create_record(tid);
  } else if (!strcmp(op, "thr")) {
    do_thr(tid, (size_t)atol(a1));
  } else if (!strcmp(op, "protect")) {
    hazard_pointer_using(recs[tid], &ARENA(node_idx(a2))->hazard, (size_t)atoi(a1));
  } else if (!strcmp(op, "unprotect")) {
    hazard_pointer_done_using(recs[tid], (size_t)atoi(a1));
  } else if (!strcmp(op, "retire")) {
    hazard_pointer_free(recs[tid], &ARENA(node_idx(a1))->hazard);
  } else if (!strcmp(op, "scan")) {
    hazard_pointer_scan(recs[tid]);
  } else {
    fprintf(stderr, "unknown op %s\n", op);
    exit(64);
  }
}
