/* C19 executor: performs one TLC-generated action sequence against the REAL
 * fiber_context_init / fiber_context_swap / fiber_context_destroy and prints one
 * observation line per action (tools/check_c19.py compares them with the
 * observations the TLA+ model spec/ContextSwitch.tla expects).
 *
 * The executor computes NO expectations.  It plants the 64-bit values it is told
 * to plant, and reports what it sees.
 *
 * input (file argv[1] or stdin), one action per line, context ids: 0,1 thread
 * contexts of kernel threads 0,1; 2.. created contexts:
 *   T <nthreads>
 *   I <by> <c> <size> <arg>                       fiber_context_init(&ctx[c], size, ctx_entry, arg)
 *   R <c> <can1> <can2>                           running context c rewrites its stack locals
 *   S <thread> <from> <to> <6 regs> <can1> <can2> plant regs, fiber_context_swap(from, to);
 *                                                 can1/2: initial locals if `to` is fresh
 *   D <by> <c>                                    fiber_context_destroy(&ctx[c])
 *   H <from_thread> <to_thread>                   park this kernel thread, the other continues
 * output: see emit_* below.  exit 0 = sequence performed, 3 = control arrived somewhere
 * the sequence does not allow (executor cannot continue), signal = crash.
 *
 * Built with -Wl,--wrap=malloc,--wrap=free,--wrap=mmap,--wrap=munmap and (split stacks)
 * --wrap=__splitstack_makecontext,--wrap=__splitstack_releasecontext.
 */
#define _GNU_SOURCE
#include <fiber_context.h>
#include <pthread.h>
#include <stdint.h>
#include <stdio.h>
#include <stdlib.h>
#include <string.h>
#include <sys/mman.h>
#include <ucontext.h>
#include <unistd.h>

#define MAXCTX 6
#define MAXACT 64
#define MAXALLOC 256

/* ---- assembly shim (ctx_shim.S) ---- */
extern void ctx_shim_swap(fiber_context_t* from, fiber_context_t* to, const uint64_t plant[6], uint64_t out[8]);
extern void* ctx_entry(void*); /* run function of every created context */
extern uint64_t ctx_entry_capture[8]; /* rsp, rdi, rbx, rbp, r12..r15 at entry */

typedef struct {
  char kind;
  int a, b, c; /* by/thread, ctx ... */
  uint64_t size, arg;
  uint64_t v[8];
} action_t;

static action_t acts[MAXACT];
static int nact, nthreads = 1;
static volatile int pc;             /* next action */
static volatile int last_swap_step; /* the swap that transferred control */
static volatile int active;         /* kernel thread allowed to run */
static fiber_context_t ctx[MAXCTX];
static uint64_t shim_out[MAXCTX][8];
static uintptr_t stk_lo[MAXCTX], stk_hi[MAXCTX];
static int stk_known[MAXCTX];
static pthread_mutex_t mu = PTHREAD_MUTEX_INITIALIZER;
static pthread_cond_t cv = PTHREAD_COND_INITIALIZER;

/* ---- output without stdio (context stacks may be small) ---- */
static char lb[2048];
static int ln;
static void o_s(const char* s) { while (*s && ln < (int)sizeof(lb) - 2) lb[ln++] = *s++; }
static void o_x(uint64_t v) {
  static const char hx[] = "0123456789abcdef";
  int i;
  for (i = 60; i >= 0; i -= 4) if (ln < (int)sizeof(lb) - 2) lb[ln++] = hx[(v >> i) & 15];
}
static void o_d(long v) {
  char t[24]; int i = 0; unsigned long u = v < 0 ? -(unsigned long)v : (unsigned long)v;
  if (v < 0) o_s("-");
  do { t[i++] = '0' + u % 10; u /= 10; } while (u);
  while (i && ln < (int)sizeof(lb) - 2) lb[ln++] = t[--i];
}
static void o_end(void) {
  lb[ln++] = '\n';
  ssize_t r = write(1, lb, ln); (void)r;
  ln = 0;
}
static void die(const char* why, long x, long y) {
  ln = 0; o_s("error "); o_s(why); o_s(" "); o_d(x); o_s(" "); o_d(y); o_s(" pc="); o_d(pc); o_end();
  _exit(3);
}

/* ---- allocator accounting ---- */
typedef struct {
  void* ptr; size_t len; void* key; /* key: what the release call names */
  int kind;  /* 1 malloc 2 mmap 3 splitstack */
  int owner; /* context being initialised */
  int gen;   /* which fiber_context_init call made it */
  int is_stack, stack_no, rel, live;
} alloc_t;
static alloc_t allocs[MAXALLOC];
static int nalloc, nstacks;
static int stack_alloc[MAXALLOC]; /* stack_no-1 -> index in allocs */
static volatile int in_lib;       /* 1: inside fiber_context_init/destroy */
static volatile int lib_ctx, init_gen;

extern void* __real_malloc(size_t);
extern void __real_free(void*);
extern void* __real_mmap(void*, size_t, int, int, int, off_t);
extern int __real_munmap(void*, size_t);

static void note_alloc(int kind, void* p, size_t len, void* key) {
  if (in_lib != 1 || !p || p == MAP_FAILED) return;
  if (nalloc >= MAXALLOC) die("too-many-allocs", 0, 0);
  alloc_t* a = &allocs[nalloc++];
  a->ptr = p; a->len = len; a->key = key; a->kind = kind; a->owner = lib_ctx;
  a->gen = init_gen; a->is_stack = 0; a->stack_no = 0; a->rel = 0; a->live = 1;
}
/* returns 1 if the real release must be suppressed (second release of a tracked block) */
static int note_release(int kind, void* key, size_t len) {
  int i;
  for (i = nalloc - 1; i >= 0; i--) {
    alloc_t* a = &allocs[i];
    if (a->kind != kind || a->key != key) continue;
    if (kind == 2 && ((len + 4095) & ~(size_t)4095) != ((a->len + 4095) & ~(size_t)4095))
      return 0; /* partial unmapping is not a release of the stack */
    a->rel++;
    if (a->live) { a->live = 0; return 0; }
    return 1;
  }
  return 0;
}
void* __wrap_malloc(size_t n) { void* p = __real_malloc(n); note_alloc(1, p, n, p); return p; }
void __wrap_free(void* p) { if (p && note_release(1, p, 0)) return; __real_free(p); }
void* __wrap_mmap(void* a, size_t n, int pr, int fl, int fd, off_t off) {
  void* p = __real_mmap(a, n, pr, fl, fd, off); note_alloc(2, p, n, p); return p;
}
int __wrap_munmap(void* p, size_t n) { if (note_release(2, p, n)) return 0; return __real_munmap(p, n); }
#ifdef FIBER_STACK_SPLIT
extern void* __real___splitstack_makecontext(size_t, void**, size_t*);
extern void __real___splitstack_releasecontext(void**);
void* __wrap___splitstack_makecontext(size_t n, void** c, size_t* sz) {
  int save = in_lib; in_lib = 0; /* segment memory obtained inside is libgcc's business */
  void* p = __real___splitstack_makecontext(n, c, sz);
  in_lib = save;
  note_alloc(3, p, *sz, c);
  return p;
}
void __wrap___splitstack_releasecontext(void** c) {
  if (note_release(3, c, 0)) return;
  __real___splitstack_releasecontext(c);
}
#endif

static void o_heap(void) { /* release count of every stack ever allocated, in allocation order */
  int i, live = 0, aux_live = 0, aux_over = 0;
  o_s(" rel=");
  for (i = 0; i < nstacks; i++) { if (i) o_s(","); o_d(allocs[stack_alloc[i]].rel); }
  if (!nstacks) o_s("-");
  for (i = 0; i < nalloc; i++) {
    alloc_t* a = &allocs[i];
    if (a->is_stack) { if (a->live) live++; continue; }
    if (a->owner < 2) continue; /* thread contexts are never destroyed by the sequences */
    /* auxiliary blocks (e.g. the ucontext_t): released exactly when the stack of the same
     * fiber_context_init call is */
    {
      int j; alloc_t* s = NULL;
      for (j = 0; j < nalloc; j++) if (allocs[j].is_stack && allocs[j].gen == a->gen) s = &allocs[j];
      if (!s) continue;
      if (a->rel > 1 || (a->rel == 1 && s->rel == 0)) aux_over++;
      if (a->rel == 0 && s->rel > 0) aux_live++;
    }
  }
  o_s(" live="); o_d(live); o_s(" aux_leak="); o_d(aux_live); o_s(" aux_over="); o_d(aux_over);
}

/* ---- which stack does an address lie in ---- */
static int stack_of(uintptr_t a) {
  int c;
  for (c = 2; c < MAXCTX; c++) if (stk_known[c] && a >= stk_lo[c] && a <= stk_hi[c]) return c;
  for (c = 0; c < 2; c++) if (stk_known[c] && a >= stk_lo[c] && a <= stk_hi[c]) return c;
  return -1;
}
static uintptr_t saved_sp_of(int c) {
#if defined(FIBER_FAST_SWITCHING)
  return (uintptr_t)ctx[c].ctx_stack_pointer;
#else
  return (uintptr_t)((ucontext_t*)ctx[c].ctx_stack_pointer)->uc_mcontext.gregs[REG_RSP];
#endif
}

static void finish(void) {
  o_s("end"); o_heap(); o_end();
  _exit(0);
}

static void handover(int to) {
  int me = active;
  pthread_mutex_lock(&mu);
  active = to;
  pthread_cond_broadcast(&cv);
  while (active != me) pthread_cond_wait(&cv, &mu);
  pthread_mutex_unlock(&mu);
}

/* every context (thread context or created) runs this loop on its own stack; `can`
 * are locals of the context function's frame */
static void run_actions(int self, volatile uint64_t* can) {
  for (;;) {
    if (pc >= nact) finish();
    int step = pc;
    action_t* a = &acts[step];
    switch (a->kind) {
      case 'I': {
        if (a->a != self) die("actor-mismatch-init", a->a, self);
        int c = a->b;
        pc = step + 1;
        memset(&ctx[c], 0xA5, sizeof(ctx[c])); /* the API does not require zeroed storage */
        init_gen++;
        in_lib = 1; lib_ctx = c;
        int r = fiber_context_init(&ctx[c], (size_t)a->size, ctx_entry, (void*)(uintptr_t)a->arg);
        in_lib = 0;
        int i, found = 0;
        for (i = nalloc - 1; i >= 0 && r; i--) {
          if (allocs[i].owner == c && allocs[i].live && allocs[i].ptr == ctx[c].ctx_stack && !allocs[i].is_stack) {
            allocs[i].is_stack = 1; allocs[i].stack_no = ++nstacks; stack_alloc[nstacks - 1] = i; found = 1;
            break;
          }
        }
        if (r) {
          stk_lo[c] = (uintptr_t)ctx[c].ctx_stack;
          stk_hi[c] = stk_lo[c] + ctx[c].ctx_stack_size;
          stk_known[c] = 1;
        }
        o_s("init step="); o_d(step); o_s(" c="); o_d(c); o_s(" ok="); o_d(r); o_s(" tracked="); o_d(found);
        o_s(" stksize="); o_d((long)ctx[c].ctx_stack_size);
        o_heap(); o_end();
        break;
      }
      case 'R':
        if (a->a != self) die("actor-mismatch-setregs", a->a, self);
        can[0] = a->v[0]; can[1] = a->v[1];
        pc = step + 1;
        o_s("setregs step="); o_d(step); o_s(" c="); o_d(self); o_heap(); o_end();
        break;
      case 'S': {
        if (a->b != self) die("actor-mismatch-swap", a->b, self);
        if (a->a != active) die("thread-mismatch-swap", a->a, active);
        pc = step + 1;
        last_swap_step = step;
        ctx_shim_swap(&ctx[self], &ctx[a->c], a->v, shim_out[self]);
        /* resumed: by the swap action last_swap_step, whose target must be us */
        {
          int rs = last_swap_step;
          action_t* ra = &acts[rs];
          uint64_t* o = shim_out[self];
          if (ra->kind != 'S' || ra->c != self) die("resumed-by-wrong-action", rs, self);
          o_s("swap step="); o_d(rs); o_s(" kind=resume to="); o_d(self); o_s(" thread="); o_d(active);
          o_s(" regs=");
          int i;
          for (i = 0; i < 6; i++) { if (i) o_s(","); o_x(o[i]); }
          o_s(" can="); o_x(can[0]); o_s(","); o_x(can[1]);
          o_s(" spsame="); o_d(o[6] == o[7]);
          o_s(" stk="); o_d(stack_of((uintptr_t)o[7]));
          o_s(" svstk="); o_d(stack_of(saved_sp_of(ra->b)));
          o_heap(); o_end();
        }
        break;
      }
      case 'D': {
        if (a->a != self) die("actor-mismatch-destroy", a->a, self);
        int c = a->b;
        pc = step + 1;
        in_lib = 1; lib_ctx = c;
        fiber_context_destroy(&ctx[c]);
        in_lib = 0;
        stk_known[c] = 0;
        o_s("destroy step="); o_d(step); o_s(" c="); o_d(c); o_heap(); o_end();
        break;
      }
      case 'H':
        if (a->a != active) die("thread-mismatch-handover", a->a, active);
        pc = step + 1;
        o_s("handover step="); o_d(step); o_heap(); o_end();
        handover(a->b);
        break;
      default:
        die("bad-action", a->kind, step);
    }
  }
}

/* called by ctx_entry (assembly) on the new context's stack, after it captured the
 * machine state at function entry and re-aligned rsp defensively */
void ctx_main_c(void* arg) {
  volatile uint64_t can[2];
  int rs = last_swap_step;
  action_t* ra = &acts[rs];
  int self;
  (void)arg;
  if (rs < 0 || rs >= nact || ra->kind != 'S') die("entered-by-non-swap", rs, 0);
  self = ra->c;
  can[0] = ra->v[6]; can[1] = ra->v[7];
  o_s("swap step="); o_d(rs); o_s(" kind=entry to="); o_d(self); o_s(" thread="); o_d(active);
  o_s(" arg="); o_x(ctx_entry_capture[1]);
  o_s(" spmod="); o_d((long)(ctx_entry_capture[0] & 15));
  o_s(" stk="); o_d(stack_of((uintptr_t)ctx_entry_capture[0]));
  o_s(" svstk="); o_d(stack_of(saved_sp_of(ra->b)));
  o_s(" entryregs=");
  { int i; for (i = 2; i < 8; i++) { if (i > 2) o_s(","); o_x(ctx_entry_capture[i]); } }
  o_heap(); o_end();
  run_actions(self, can);
  die("context-function-returned", self, 0);
}

static void thread_stack_bounds(int t) {
  pthread_attr_t at; void* lo; size_t sz;
  if (pthread_getattr_np(pthread_self(), &at) == 0 && pthread_attr_getstack(&at, &lo, &sz) == 0) {
    stk_lo[t] = (uintptr_t)lo; stk_hi[t] = (uintptr_t)lo + sz; stk_known[t] = 1;
    pthread_attr_destroy(&at);
  }
}

static void* thread1(void* x) {
  volatile uint64_t can[2];
  (void)x;
  can[0] = can[1] = 0;
  pthread_mutex_lock(&mu);
  while (active != 1) pthread_cond_wait(&cv, &mu);
  pthread_mutex_unlock(&mu);
  thread_stack_bounds(1);
  in_lib = 1; lib_ctx = 1;
  if (!fiber_context_init_from_thread(&ctx[1])) die("init-from-thread", 1, 0);
  in_lib = 0;
  run_actions(1, can);
  return NULL;
}

int main(int argc, char** argv) {
  volatile uint64_t can[2];
  FILE* f = argc > 1 ? fopen(argv[1], "r") : stdin;
  char line[512];
  if (!f) { fprintf(stderr, "cannot open %s\n", argv[1]); return 2; }
  while (fgets(line, sizeof line, f)) {
    action_t* a = &acts[nact];
    unsigned long long v[10];
    memset(a, 0, sizeof *a);
    if (line[0] == '#' || line[0] == '\n') continue;
    if (line[0] == 'T') { nthreads = atoi(line + 1); continue; }
    if (nact >= MAXACT) { fprintf(stderr, "too many actions\n"); return 2; }
    a->kind = line[0];
    switch (line[0]) {
      case 'I':
        if (sscanf(line + 1, "%d %d %llu %llx", &a->a, &a->b, &v[0], &v[1]) != 4) goto bad;
        a->size = v[0]; a->arg = v[1];
        break;
      case 'R':
        if (sscanf(line + 1, "%d %llx %llx", &a->a, &v[0], &v[1]) != 3) goto bad;
        a->v[0] = v[0]; a->v[1] = v[1];
        break;
      case 'S':
        if (sscanf(line + 1, "%d %d %d %llx %llx %llx %llx %llx %llx %llx %llx", &a->a, &a->b, &a->c, &v[0], &v[1],
                   &v[2], &v[3], &v[4], &v[5], &v[6], &v[7]) != 11) goto bad;
        { int i; for (i = 0; i < 8; i++) a->v[i] = v[i]; }
        break;
      case 'D':
      case 'H':
        if (sscanf(line + 1, "%d %d", &a->a, &a->b) != 2) goto bad;
        break;
      default:
        goto bad;
    }
    if (a->a < 0 || a->a >= MAXCTX || a->b < 0 || a->b >= MAXCTX || a->c < 0 || a->c >= MAXCTX) goto bad;
    nact++;
    continue;
  bad:
    fprintf(stderr, "bad input line: %s", line);
    return 2;
  }
  last_swap_step = -1;
  can[0] = can[1] = 0;
  thread_stack_bounds(0);
  in_lib = 1; lib_ctx = 0;
  if (!fiber_context_init_from_thread(&ctx[0])) return 2;
  in_lib = 0;
  if (nthreads > 1) {
    pthread_t th;
    pthread_attr_t at;
    pthread_attr_init(&at);
    pthread_attr_setstacksize(&at, 1 << 20);
    if (pthread_create(&th, &at, thread1, NULL)) return 2;
  }
  run_actions(0, can);
  return 0;
}
