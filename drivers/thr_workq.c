/* thread-regime driver for src/work_queue.c (property C17)
 *
 *   nodes n1 n2 n3              (scenario parameter: the work items = mpsc nodes)
 *   thread t0: push n1 v1; push n2 v2
 *   thread t1: push n3 v3
 *   thread t2: wait
 *
 * ops:  push n v   item n carries value v; work_queue_push(); if told START_WORKING the thread
 *                  calls work_queue_get_work() until it is told EMPTY (api op "get", r = 1 with the
 *                  value handed out / r = 0 for EMPTY)
 *       wait       driver-only helper thread, see waiter() below
 * tracked memory: object "wq" (head, tail, in_count, out_count), the nodes ("stub", n1..) with data/next.
 */
#include "work_queue.h"
#include "thr_common.h"

static work_queue_t wq;
#define MAXN 32
static work_queue_item_t* nodes[MAXN];
static char node_names[MAXN][16];
static int nnodes;
static char vals[MAXN][8];
static char val_names[MAXN][24];
static int nvals;
static int total_ops;          /* script ops of all threads except the waiters */
static _Atomic int ops_done;   /* driver bookkeeping (not tracked) */
static _Atomic int tick;

static const vrt_field_t node_fields[] = {
    {"data", offsetof(mpsc_fifo_node_t, data), 8, VD_PTR, 0, 0},
    {"next", offsetof(mpsc_fifo_node_t, next), 8, VD_PTR, 0, 0},
};
static void* val_ptr(const char* name) {
  for (int i = 0; i < nvals; i++)
    if (!strcmp(val_names[i], name)) return vals[i];
  snprintf(val_names[nvals], sizeof val_names[0], "%s", name);
  vrt_reg_name(name, vals[nvals], 8);
  return vals[nvals++];
}
static work_queue_item_t* node_by_name(const char* n) {
  for (int i = 0; i < nnodes; i++)
    if (!strcmp(node_names[i], n)) return nodes[i];
  fprintf(stderr, "unknown node %s\n", n);
  exit(64);
}
static unsigned long long g_count_applied, g_count_base;
static void dec_in(const void* base, char* out, size_t cap) {
  unsigned long long v = (unsigned long long)((const work_queue_t*)base)->in_count;
  snprintf(out, cap, "%lld", (long long)(v >= g_count_applied ? v - g_count_applied : v)); /* the base cancels when a session ends */
}
static void dec_out(const void* base, char* out, size_t cap) {
  unsigned long long v = (unsigned long long)((const work_queue_t*)base)->out_count;
  snprintf(out, cap, "%lld", (long long)(v >= g_count_applied ? v - g_count_applied : v));
}
/* called by a thread that has just been told START_WORKING (it is the only one touching out_count) */
static void maybe_bump(void) {
  if (!g_count_base || g_count_applied) return;
  vrt_nosched_begin();
  __sync_fetch_and_add(&wq.in_count, g_count_base);
  wq.out_count += g_count_base;
  g_count_applied = g_count_base;
  vrt_nosched_end();
}
static void drv_setup(void) {
  const char* cb0 = t_param("count_base");
  g_count_base = cb0 ? strtoull(cb0, NULL, 10) : 0;
  work_queue_init(&wq);
  static const vrt_field_t qf[] = {
      {"head", offsetof(work_queue_t, fifo.head), 8, VD_PTR, 0, 0},
      {"tail", offsetof(work_queue_t, fifo.tail), 8, VD_PTR, 0, 0},
      /* counters are rendered relative to a base that the first worker adds to both of them
         (scenario parameter count_base), so that a run can cross the 2^32 boundary */
      {"inb", offsetof(work_queue_t, in_count), 1, VD_U8, VF_NOEPOCH, 0},   /* low bytes: keep accesses scheduling points */
      {"outb", offsetof(work_queue_t, out_count), 1, VD_U8, VF_NOEPOCH, 0},
      {"in_count", 0, 0, VD_CUSTOM, 0, dec_in},
      {"out_count", 0, 0, VD_CUSTOM, 0, dec_out},
  };
  vrt_reg_obj("stub", (void*)wq.fifo.head, sizeof(mpsc_fifo_node_t), node_fields, 2);
  const char* ns = t_param("nodes");
  char buf[256];
  snprintf(buf, sizeof buf, "%s", ns ? ns : "");
  for (char* t = strtok(buf, " "); t && nnodes < MAXN; t = strtok(NULL, " ")) {
    nodes[nnodes] = calloc(1, sizeof(mpsc_fifo_node_t));
    snprintf(node_names[nnodes], 16, "%s", t);
    vrt_reg_obj(t, nodes[nnodes], sizeof(mpsc_fifo_node_t), node_fields, 2);
    nnodes++;
  }
  /* pre-register every value name used by the scripts (registration is not thread safe) */
  for (int t = 0; t < t_nthreads; t++)
    for (int i = 0; i < t_nops[t]; i++) {
      if (!strcmp(t_ops[t][i].op, "push")) val_ptr(t_ops[t][i].a2);
      if (strcmp(t_ops[t][i].op, "wait")) total_ops++;
    }
  vrt_reg_obj("wq", &wq, sizeof wq, qf, 6);
}
/* The runtime parks a thread that calls cpu_relax() until some other thread changes memory.  The
 * worker decides to relax from reads that may be older than the last change of the last pusher; if
 * that pusher then finishes, nobody would ever wake the worker (a false "quiescent" verdict: in
 * reality the worker just retries).  The waiter thread only reads a driver counter, so the runtime
 * classifies it as a busy-waiter and resumes it exactly when nothing else can run; it then bumps an
 * untracked counter, which counts as progress and makes the relaxed worker eligible again.  A real
 * stall still ends the run (step budget -> livelock oracle).  It touches no tracked memory. */
static void waiter(void) {
  while (atomic_load(&ops_done) < total_ops) {
    atomic_fetch_add(&tick, 1);
    /* wait for progress of the others (not a busy loop: under priority scheduling with long stalls a
       spinning helper of high priority would starve the workers and exhaust the step budget) */
    vrt_yield_hint();
  }
}
static void drv_op(int tid, const char* op, const char* a1, const char* a2, const char* a3) {
  (void)a3;
  if (!strcmp(op, "push")) {
    work_queue_item_t* n = node_by_name(a1);
    vrt_api("\"f\":\"t%d\",\"ph\":\"call\",\"op\":\"push\",\"o\":\"%s\",\"v\":\"%s\"", tid, a1, a2);
    n->data = val_ptr(a2);
    int r = work_queue_push(&wq, n);
    vrt_api("\"f\":\"t%d\",\"ph\":\"ret\",\"op\":\"push\",\"o\":\"%s\",\"v\":\"%s\",\"r\":%d", tid, a1, a2,
            r == WORK_QUEUE_START_WORKING ? 1 : 0);
    if (r == WORK_QUEUE_START_WORKING) {
      maybe_bump();
      for (;;) {
        work_queue_item_t* out = NULL;
        vrt_api("\"f\":\"t%d\",\"ph\":\"call\",\"op\":\"get\",\"v\":\"null\"", tid);
        int g = work_queue_get_work(&wq, &out);
        if (g == WORK_QUEUE_MORE_WORK) {
          vrt_api("\"f\":\"t%d\",\"ph\":\"ret\",\"op\":\"get\",\"o\":\"%s\",\"v\":\"%s\",\"r\":1", tid, vrt_name_of(out),
                  vrt_name_of(out ? out->data : NULL));
        } else {
          vrt_api("\"f\":\"t%d\",\"ph\":\"ret\",\"op\":\"get\",\"v\":\"null\",\"r\":0", tid);
          break;
        }
      }
    }
    atomic_fetch_add(&ops_done, 1);
  } else if (!strcmp(op, "wait")) {
    waiter();
  } else {
    fprintf(stderr, "unknown op %s\n", op);
    exit(64);
  }
}
