#ifndef DRV_EXT_H
#define DRV_EXT_H
/* module-specific extensions of the fiber-regime driver (drivers/ext_<module>.c).
 * Each extension registers itself from a constructor:
 *
 *   static int my_op(const char* fiber, const char* op, const char* a1, const char* a2) {...return 1 if handled}
 *   static int my_obj(const char* kind, const char* name, long arg, void** obj) {...return 1 if handled}
 *   static void my_setup(void) {...}
 *   DRV_EXT_REGISTER(mymod, my_op, my_obj, my_setup)
 */
typedef struct drv_ext {
  const char* name;
  int (*op)(const char* fiber, const char* op, const char* a1, const char* a2);
  int (*obj)(const char* kind, const char* name, long arg, void** obj);
  void (*setup)(void);
} drv_ext_t;
void drv_ext_register(const drv_ext_t* e);
#define DRV_EXT_REGISTER(nm, opf, objf, setupf)                                  \
  static const drv_ext_t drv_ext_##nm = {#nm, opf, objf, setupf};                \
  __attribute__((constructor)) static void drv_ext_ctor_##nm(void) { drv_ext_register(&drv_ext_##nm); }

int drv_ext_op(const char* fiber, const char* op, const char* a1, const char* a2); /* 1 if handled */
int drv_ext_obj(const char* kind, const char* name, long arg, void** obj);         /* 1 if handled */
void drv_ext_setup(void);
void* drv_obj(const char* kind, const char* name);
#endif
