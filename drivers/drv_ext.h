#ifndef DRV_EXT_H
#define DRV_EXT_H
/* module-specific extensions of the fiber-regime driver */
int drv_ext_op(const char* fiber, const char* op, const char* a1, const char* a2); /* 1 if handled */
int drv_ext_obj(const char* kind, const char* name, long arg, void** obj);         /* 1 if handled */
void drv_ext_setup(void);
void* drv_obj(const char* kind, const char* name);
#endif
