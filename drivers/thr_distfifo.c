/* thread-regime driver for include/dist_fifo.h (property C20): FIFO with ONE distinguished
 * pusher and many poppers; the head is the 16-byte pair (counter, node) advanced by
 * compare_and_swap2.  Node identities rotate: trypop returns the OLD head node carrying the
 * data of the new head.
 *
 * script ops:  push <node> <val>   (pusher thread only) node->data = val; dist_fifo_push
 *              pop                 dist_fifo_trypop until the result is not DIST_FIFO_RETRY; the node
 *                                  is stored in the tracked field t<i>.got and, if not NULL, appended
 *                                  to the thread's private hand
 *              repush <val>        (pusher thread only) push the OLDEST node of the hand again with a
 *                                  new value (immediate reuse); no-op if the hand is empty
 */
#include "dist_fifo.h"
#include "thr_common.h"

static dist_fifo_t q __attribute__((aligned(64)));
#define MAXN 16
static dist_fifo_node_t* nodes[MAXN];
static char node_names[MAXN][16];
static int nnodes;
static char vals[48][8];
static char val_names[48][16];
static int nvals;
typedef struct {
  dist_fifo_node_t* got;
  char pad[56];
} tres_t;
static tres_t res[TMAXT];
static __thread dist_fifo_node_t* hand[TMAXOPS];
static __thread int hand_lo, hand_hi;

static const vrt_field_t node_fields[] = {
    {"data", offsetof(dist_fifo_node_t, data), 8, VD_PTR, 0, 0},
    {"next", offsetof(dist_fifo_node_t, next), 8, VD_PTR, 0, 0},
};
static void* val_ptr(const char* name) {
  for (int i = 0; i < nvals; i++)
    if (!strcmp(val_names[i], name)) return vals[i];
  snprintf(val_names[nvals], 16, "%s", name);
  vrt_reg_name(name, vals[nvals], 8);
  return vals[nvals++];
}
static dist_fifo_node_t* node_by_name(const char* n) {
  for (int i = 0; i < nnodes; i++)
    if (!strcmp(node_names[i], n)) return nodes[i];
  fprintf(stderr, "unknown node %s\n", n);
  exit(64);
}
static void drv_setup(void) {
  if (!dist_fifo_init(&q)) exit(65);
  static const vrt_field_t qf[] = {
      {"counter", offsetof(dist_fifo_t, head) + offsetof(dist_fifo_pointer_t, counter), 8, VD_U64, 0, 0}, /* low word */
      {"head", offsetof(dist_fifo_t, head) + offsetof(dist_fifo_pointer_t, node), 8, VD_PTR, 0, 0},       /* high word */
      {"tail", offsetof(dist_fifo_t, tail), 8, VD_PTR, 0, 0},
  };
  static const vrt_field_t tf[] = {{"got", offsetof(tres_t, got), 8, VD_PTR, 0, 0}};
  vrt_reg_obj("stub", (void*)q.tail, sizeof(dist_fifo_node_t), node_fields, 2);
  const char* ns = t_param("nodes");
  char buf[256];
  snprintf(buf, sizeof buf, "%s", ns ? ns : "");
  for (char* t = strtok(buf, " "); t; t = strtok(NULL, " ")) {
    nodes[nnodes] = calloc(1, sizeof(dist_fifo_node_t));
    snprintf(node_names[nnodes], 16, "%s", t);
    vrt_reg_obj(t, nodes[nnodes], sizeof(dist_fifo_node_t), node_fields, 2);
    nnodes++;
  }
  for (int t = 0; t < t_nthreads; t++)
    for (int i = 0; i < t_nops[t]; i++) {
      if (!strcmp(t_ops[t][i].op, "push")) val_ptr(t_ops[t][i].a2);
      if (!strcmp(t_ops[t][i].op, "repush")) val_ptr(t_ops[t][i].a1);
    }
  for (int t = 0; t < t_nthreads; t++) {
    char nm[16];
    snprintf(nm, sizeof nm, "t%d", t);
    vrt_reg_obj(nm, &res[t], sizeof(tres_t), tf, 1);
  }
  vrt_reg_obj("q", &q, sizeof q, qf, 3);
}
static void do_push(int tid, dist_fifo_node_t* n, const char* v) {
  vrt_api("\"f\":\"t%d\",\"ph\":\"call\",\"op\":\"push\",\"o\":\"%s\",\"v\":\"%s\"", tid, vrt_name_of(n), v);
  n->data = val_ptr(v);
  dist_fifo_push(&q, n);
  vrt_api("\"f\":\"t%d\",\"ph\":\"ret\",\"op\":\"push\",\"o\":\"%s\",\"v\":\"%s\"", tid, vrt_name_of(n), v);
}
static void drv_op(int tid, const char* op, const char* a1, const char* a2, const char* a3) {
  (void)a3;
  if (!strcmp(op, "push")) {
    do_push(tid, node_by_name(a1), a2);
  } else if (!strcmp(op, "pop")) {
    vrt_api("\"f\":\"t%d\",\"ph\":\"call\",\"op\":\"pop\"", tid);
    dist_fifo_node_t* n;
    do {
      n = dist_fifo_trypop(&q);
    } while (n == DIST_FIFO_RETRY);
    vrt_api("\"f\":\"t%d\",\"ph\":\"ret\",\"op\":\"pop\",\"o\":\"%s\",\"v\":\"%s\"", tid, vrt_name_of(n),
            n ? vrt_name_of(n->data) : "null");
    res[tid].got = n; /* tracked: the spec must explain which node this thread received */
    if (n) hand[hand_hi++] = n;
  } else if (!strcmp(op, "repush")) {
    if (hand_lo < hand_hi) do_push(tid, hand[hand_lo++], a1);
  } else {
    fprintf(stderr, "unknown op %s\n", op);
    exit(64);
  }
}
