/* thread-regime driver for include/lockfree_ring_buffer.h (property C16)
 *
 *   power 1                     (scenario parameter: capacity = 2^power)
 *   thread t0: pop; pop; popb
 *   thread t1: push v1; pushb v2
 *
 * ops:  push v   lockfree_ring_buffer_trypush     (api op "push", r = 1/0)
 *       pop      lockfree_ring_buffer_trypop      (api op "pop",  v = value name or "null")
 *       pushb v  lockfree_ring_buffer_push  (blocking; recorded as a successful push)
 *       popb     lockfree_ring_buffer_pop   (blocking; recorded as a successful pop)
 *       wait     driver-only helper thread (needed when blocking ops are used), see waiter() below
 * tracked memory: object "rb" with fields high, low, s0..s<size-1> (the slots).
 */
#include "lockfree_ring_buffer.h"
#include "thr_common.h"

static lockfree_ring_buffer_t* rb;
#define MAXV 64
static char vals[MAXV][8];
static char val_names[MAXV][24];
static int nvals;
static int total_ops;          /* script ops of all threads except the waiter */
static _Atomic int ops_done;   /* driver bookkeeping (not tracked) */
static _Atomic int tick;

static void* val_ptr(const char* name) {
  for (int i = 0; i < nvals; i++)
    if (!strcmp(val_names[i], name)) return vals[i];
  if (nvals >= MAXV) {
    fprintf(stderr, "too many values\n");
    exit(64);
  }
  snprintf(val_names[nvals], sizeof val_names[0], "%s", name);
  vrt_reg_name(name, vals[nvals], 8);
  return vals[nvals++];
}

/* count_base (scenario parameter, a multiple of the capacity): both counters start there and are
 * rendered relative to it, so that a run can cross the 2^32 boundary of the 64-bit tickets */
static unsigned long long g_count_base;
static void dec_high(const void* base, char* out, size_t cap) {
  snprintf(out, cap, "%lld", (long long)((unsigned long long)((const lockfree_ring_buffer_t*)base)->high - g_count_base));
}
static void dec_low(const void* base, char* out, size_t cap) {
  snprintf(out, cap, "%lld", (long long)((unsigned long long)((const lockfree_ring_buffer_t*)base)->low - g_count_base));
}
static void drv_setup(void) {
  const char* cb0 = t_param("count_base");
  g_count_base = cb0 ? strtoull(cb0, NULL, 10) : 0;
  const char* p = t_param("power");
  int power = p ? atoi(p) : 1;
  if (power < 1 || power > 4) {
    fprintf(stderr, "power out of range\n");
    exit(64);
  }
  rb = lockfree_ring_buffer_create((uint32_t)power);
  uint32_t size = rb->size;
  static vrt_field_t f[4 + 16];
  static char names[16][8];
  int nb = 2;
  if (g_count_base) {
    rb->high = g_count_base;
    rb->low = g_count_base;
    /* low bytes keep the accesses scheduling points; the values are rendered relative to the base */
    f[0] = (vrt_field_t){"highb", offsetof(lockfree_ring_buffer_t, high), 1, VD_U8, VF_NOEPOCH, 0};
    f[1] = (vrt_field_t){"lowb", offsetof(lockfree_ring_buffer_t, low), 1, VD_U8, VF_NOEPOCH, 0};
    f[2] = (vrt_field_t){"high", 0, 0, VD_CUSTOM, 0, dec_high};
    f[3] = (vrt_field_t){"low", 0, 0, VD_CUSTOM, 0, dec_low};
    nb = 4;
  } else {
    f[0] = (vrt_field_t){"high", offsetof(lockfree_ring_buffer_t, high), 8, VD_U64, 0, 0};
    f[1] = (vrt_field_t){"low", offsetof(lockfree_ring_buffer_t, low), 8, VD_U64, 0, 0};
  }
  for (uint32_t i = 0; i < size; i++) {
    snprintf(names[i], sizeof names[i], "s%u", i);
    f[nb + i] = (vrt_field_t){names[i], offsetof(lockfree_ring_buffer_t, buffer) + i * sizeof(void*), 8, VD_PTR, 0, 0};
  }
  /* pre-register every value name used by the scripts (registration is not thread safe) */
  for (int t = 0; t < t_nthreads; t++)
    for (int i = 0; i < t_nops[t]; i++)
    {
      if (!strcmp(t_ops[t][i].op, "push") || !strcmp(t_ops[t][i].op, "pushb")) val_ptr(t_ops[t][i].a1);
      if (strcmp(t_ops[t][i].op, "wait")) total_ops++;
    }
  vrt_reg_obj("rb", rb, sizeof(lockfree_ring_buffer_t) + size * sizeof(void*), f, nb + (int)size);
}

/* The runtime parks a thread that calls cpu_relax() (the blocking push/pop do) until some other
 * thread changes memory.  The decision to relax may rest on reads that are older than the last
 * change of the last other thread; if that thread then finishes nobody would ever wake the spinner
 * (a false "quiescent" verdict: in reality it just retries).  The waiter thread only reads a driver
 * counter, so the runtime classifies it as a busy-waiter and resumes it exactly when nothing else
 * can run; it then bumps an untracked counter, which counts as progress and makes the relaxed
 * thread eligible again.  A real stall still ends the run (step budget -> livelock oracle).
 * The waiter touches no tracked memory. */
static void waiter(void) {
  while (atomic_load(&ops_done) < total_ops) {
    atomic_fetch_add(&tick, 1);
    /* wait for progress of the others (not a busy loop: under priority scheduling with long stalls a
       spinning helper of high priority would starve the workers and exhaust the step budget) */
    vrt_yield_hint();
  }
}
static void drv_op(int tid, const char* op, const char* a1, const char* a2, const char* a3) {
  (void)a2;
  (void)a3;
  if (!strcmp(op, "push") || !strcmp(op, "pushb")) {
    void* v = val_ptr(a1);
    int r = 1;
    vrt_api("\"f\":\"t%d\",\"ph\":\"call\",\"op\":\"push\",\"v\":\"%s\"", tid, a1);
    if (op[4])
      lockfree_ring_buffer_push(rb, v);
    else
      r = lockfree_ring_buffer_trypush(rb, v);
    vrt_api("\"f\":\"t%d\",\"ph\":\"ret\",\"op\":\"push\",\"v\":\"%s\",\"r\":%d", tid, a1, r);
    atomic_fetch_add(&ops_done, 1);
  } else if (!strcmp(op, "pop") || !strcmp(op, "popb")) {
    vrt_api("\"f\":\"t%d\",\"ph\":\"call\",\"op\":\"pop\",\"v\":\"null\"", tid);
    void* v = op[3] ? lockfree_ring_buffer_pop(rb) : lockfree_ring_buffer_trypop(rb);
    vrt_api("\"f\":\"t%d\",\"ph\":\"ret\",\"op\":\"pop\",\"v\":\"%s\"", tid, vrt_name_of(v));
    atomic_fetch_add(&ops_done, 1);
  } else if (!strcmp(op, "wait")) {
    waiter();
  } else {
    fprintf(stderr, "unknown op %s\n", op);
    exit(64);
  }
}
