/* Fiber-regime scenario driver: interprets the same scripts the TLC configs
 * use (passed in VRT_SCEN, generated from scen/<name>.json by tools/check.py).
 *
 *   threads 2
 *   mutex m1
 *   fiber thr0: spawn a; lock m1; unlock m1; join a
 *   fiber a: lock m1; unlock m1
 */
#include <stdio.h>
#include <stdlib.h>
#include <string.h>

#include "fiber.h"
#include "fiber_manager.h"
#include "fiber_mutex.h"
#include "vrt_fiber.h"
#include "drv_ext.h"

#define MAXF 96
#define MAXOPS 224
typedef struct {
  char op[16];
  char a1[24];
  char a2[24];
} op_t;
typedef struct {
  char name[24];
  op_t ops[MAXOPS];
  int nops;
  fiber_t* f;
  char resbuf[8];
} fdesc_t;
static fdesc_t g_f[MAXF];
static int g_nf;
static int g_threads = 1;

typedef struct {
  char kind[12];
  char name[24];
  long arg;
  void* obj;
} odesc_t;
static odesc_t g_o[32];
static int g_no;

static fdesc_t* fd_by_name(const char* n) {
  for (int i = 0; i < g_nf; i++)
    if (!strcmp(g_f[i].name, n)) return &g_f[i];
  fprintf(stderr, "driver: unknown fiber %s\n", n);
  exit(64);
}
void* drv_obj(const char* kind, const char* n) {
  for (int i = 0; i < g_no; i++)
    if (!strcmp(g_o[i].name, n) && (!kind || !strcmp(g_o[i].kind, kind))) return g_o[i].obj;
  fprintf(stderr, "driver: unknown object %s\n", n);
  exit(64);
}

static char* trim(char* s) {
  while (*s == ' ' || *s == '\t') s++;
  char* e = s + strlen(s);
  while (e > s && (e[-1] == ' ' || e[-1] == '\t' || e[-1] == '\n')) *--e = 0;
  return s;
}

static void parse(const char* text) {
  char* copy = strdup(text);
  char* save = NULL;
  for (char* line = strtok_r(copy, "\n", &save); line; line = strtok_r(NULL, "\n", &save)) {
    line = trim(line);
    if (!*line || *line == '#') continue;
    if (!strncmp(line, "threads ", 8)) {
      g_threads = atoi(line + 8);
    } else if (!strncmp(line, "fiber ", 6)) {
      char* colon = strchr(line, ':');
      if (!colon) continue;
      *colon = 0;
      fdesc_t* fd = &g_f[g_nf++];
      memset(fd, 0, sizeof *fd);
      snprintf(fd->name, sizeof fd->name, "%s", trim(line + 6));
      char* s2 = NULL;
      for (char* o = strtok_r(colon + 1, ";", &s2); o; o = strtok_r(NULL, ";", &s2)) {
        o = trim(o);
        if (!*o) continue;
        op_t* op = &fd->ops[fd->nops++];
        memset(op, 0, sizeof *op);
        sscanf(o, "%15s %23s %23s", op->op, op->a1, op->a2);
      }
    } else {
      odesc_t* od = &g_o[g_no++];
      memset(od, 0, sizeof *od);
      char a[24] = "";
      sscanf(line, "%11s %23s %23s", od->kind, od->name, a);
      od->arg = a[0] ? strtol(a, NULL, 0) : 0;
    }
  }
  free(copy);
}

static void* fiber_main(void* p);

static void run_ops(fdesc_t* me) {
  for (int i = 0; i < me->nops; i++) {
    op_t* op = &me->ops[i];
    const char* f = me->name;
    if (!strcmp(op->op, "yield")) {
      vrt_api("\"f\":\"%s\",\"ph\":\"call\",\"op\":\"yield\"", f);
      fiber_yield();
      vrt_api("\"f\":\"%s\",\"ph\":\"ret\",\"op\":\"yield\"", f);
    } else if (!strcmp(op->op, "lock")) {
      vrt_api("\"f\":\"%s\",\"ph\":\"call\",\"op\":\"lock\",\"o\":\"%s\"", f, op->a1);
      fiber_mutex_lock(drv_obj("mutex", op->a1));
      vrt_api("\"f\":\"%s\",\"ph\":\"ret\",\"op\":\"lock\",\"o\":\"%s\",\"r\":1", f, op->a1);
    } else if (!strcmp(op->op, "trylock")) {
      vrt_api("\"f\":\"%s\",\"ph\":\"call\",\"op\":\"trylock\",\"o\":\"%s\"", f, op->a1);
      int r = fiber_mutex_trylock(drv_obj("mutex", op->a1));
      vrt_api("\"f\":\"%s\",\"ph\":\"ret\",\"op\":\"trylock\",\"o\":\"%s\",\"r\":%d", f, op->a1, r);
    } else if (!strcmp(op->op, "trylockun")) {
      vrt_api("\"f\":\"%s\",\"ph\":\"call\",\"op\":\"trylock\",\"o\":\"%s\"", f, op->a1);
      int r = fiber_mutex_trylock(drv_obj("mutex", op->a1));
      vrt_api("\"f\":\"%s\",\"ph\":\"ret\",\"op\":\"trylock\",\"o\":\"%s\",\"r\":%d", f, op->a1, r);
      if (r) {
        vrt_api("\"f\":\"%s\",\"ph\":\"call\",\"op\":\"unlock\",\"o\":\"%s\"", f, op->a1);
        fiber_mutex_unlock(drv_obj("mutex", op->a1));
        vrt_api("\"f\":\"%s\",\"ph\":\"ret\",\"op\":\"unlock\",\"o\":\"%s\",\"r\":1", f, op->a1);
      }
    } else if (!strcmp(op->op, "unlock")) {
      vrt_api("\"f\":\"%s\",\"ph\":\"call\",\"op\":\"unlock\",\"o\":\"%s\"", f, op->a1);
      fiber_mutex_unlock(drv_obj("mutex", op->a1));
      vrt_api("\"f\":\"%s\",\"ph\":\"ret\",\"op\":\"unlock\",\"o\":\"%s\",\"r\":1", f, op->a1);
    } else if (!strcmp(op->op, "spawn")) {
      fdesc_t* t = fd_by_name(op->a1);
      vrt_api("\"f\":\"%s\",\"ph\":\"call\",\"op\":\"spawn\",\"o\":\"%s\"", f, op->a1);
      vrt_next_fiber_name(t->name);
      t->f = fiber_create(FIBER_DEFAULT_STACK_SIZE, fiber_main, t);
      vrt_api("\"f\":\"%s\",\"ph\":\"ret\",\"op\":\"spawn\",\"o\":\"%s\",\"r\":1", f, op->a1);
    } else if (!strcmp(op->op, "join")) {
      fdesc_t* t = fd_by_name(op->a1);
      void* res = NULL;
      vrt_api("\"f\":\"%s\",\"ph\":\"call\",\"op\":\"join\",\"o\":\"%s\"", f, op->a1);
      int r = fiber_join(t->f, &res);
      vrt_api("\"f\":\"%s\",\"ph\":\"ret\",\"op\":\"join\",\"o\":\"%s\",\"r\":%d,\"v\":\"%s\"", f, op->a1, r,
              vrt_name_of(res));
    } else if (!strcmp(op->op, "tryjoin")) {
      fdesc_t* t = fd_by_name(op->a1);
      void* res = NULL;
      vrt_api("\"f\":\"%s\",\"ph\":\"call\",\"op\":\"tryjoin\",\"o\":\"%s\"", f, op->a1);
      int r = fiber_tryjoin(t->f, &res);
      vrt_api("\"f\":\"%s\",\"ph\":\"ret\",\"op\":\"tryjoin\",\"o\":\"%s\",\"r\":%d,\"v\":\"%s\"", f, op->a1, r,
              vrt_name_of(res));
    } else if (!strcmp(op->op, "awaitcounter")) {
      fiber_mutex_t* m = drv_obj("mutex", op->a1);
      int lim = atoi(op->a2);
      while (m->counter > lim) fiber_yield();
    } else if (!strcmp(op->op, "awaitjoining")) {
      fdesc_t* t = fd_by_name(op->a1);
      while (t->f->detach_state != FIBER_DETACH_WAIT_TO_JOIN || !t->f->join_info) fiber_yield();
    } else if (!strcmp(op->op, "tryjoinloop")) {
      fdesc_t* t = fd_by_name(op->a1);
      void* res = NULL;
      int r = 0;
      for (int k = 0; k < 3 && !r; k++) {
        vrt_api("\"f\":\"%s\",\"ph\":\"call\",\"op\":\"tryjoin\",\"o\":\"%s\"", f, op->a1);
        r = fiber_tryjoin(t->f, &res);
        vrt_api("\"f\":\"%s\",\"ph\":\"ret\",\"op\":\"tryjoin\",\"o\":\"%s\",\"r\":%d,\"v\":\"%s\"", f, op->a1, r,
                vrt_name_of(res));
        if (!r) {
          vrt_api("\"f\":\"%s\",\"ph\":\"call\",\"op\":\"yield\"", f);
          fiber_yield();
          vrt_api("\"f\":\"%s\",\"ph\":\"ret\",\"op\":\"yield\"", f);
        }
      }
      if (!r) {
        vrt_api("\"f\":\"%s\",\"ph\":\"call\",\"op\":\"join\",\"o\":\"%s\"", f, op->a1);
        r = fiber_join(t->f, &res);
        vrt_api("\"f\":\"%s\",\"ph\":\"ret\",\"op\":\"join\",\"o\":\"%s\",\"r\":%d,\"v\":\"%s\"", f, op->a1, r,
                vrt_name_of(res));
      }
    } else if (!strcmp(op->op, "detach")) {
      fdesc_t* t = fd_by_name(op->a1);
      vrt_api("\"f\":\"%s\",\"ph\":\"call\",\"op\":\"detach\",\"o\":\"%s\"", f, op->a1);
      int r = fiber_detach(t->f);
      vrt_api("\"f\":\"%s\",\"ph\":\"ret\",\"op\":\"detach\",\"o\":\"%s\",\"r\":%d", f, op->a1, r);
    } else if (!drv_ext_op(f, op->op, op->a1, op->a2)) {
      fprintf(stderr, "driver: unknown op %s\n", op->op);
      exit(64);
    }
  }
}

static void* fiber_main(void* p) {
  fdesc_t* me = p;
  vrt_api("\"f\":\"%s\",\"ph\":\"start\",\"op\":\"fiber\"", me->name);
  run_ops(me);
  vrt_api("\"f\":\"%s\",\"ph\":\"finish\",\"op\":\"fiber\"", me->name);
  return me->resbuf;
}

int main(void) {
  vrt_init();
  const char* scen = vrt_getenv("VRT_SCEN", NULL);
  if (!scen) {
    fprintf(stderr, "VRT_SCEN not set\n");
    return 64;
  }
  parse(scen);
  fiber_manager_init((size_t)g_threads);
  vrt_fiber_setup();
  for (int i = 0; i < g_no; i++) {
    odesc_t* od = &g_o[i];
    if (!strcmp(od->kind, "mutex")) {
      fiber_mutex_t* m = calloc(1, sizeof *m);
      fiber_mutex_init(m);
      od->obj = m;
      vrt_reg_mutex(od->name, m);
    } else if (!drv_ext_obj(od->kind, od->name, od->arg, &od->obj)) {
      fprintf(stderr, "driver: unknown object kind %s\n", od->kind);
      return 64;
    }
  }
  for (int i = 0; i < g_nf; i++) {
    char nm[64];
    snprintf(nm, sizeof nm, "res_%.40s", g_f[i].name);
    vrt_reg_name(nm, g_f[i].resbuf, sizeof g_f[i].resbuf);
  }
  drv_ext_setup();
  vrt_start();
  run_ops(fd_by_name("thr0"));
  vrt_end();
}
