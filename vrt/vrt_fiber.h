#ifndef VRT_FIBER_H
#define VRT_FIBER_H
#include "fiber_manager.h"
#include "vrt.h"
void vrt_fiber_setup(void);
void vrt_reg_mutex(const char* name, fiber_mutex_t* m);
void vrt_mpsc_q(const mpsc_fifo_t* f, char* out, size_t cap);
void vrt_mpsc_tailf(const mpsc_fifo_t* f, char* out, size_t cap);
extern int vrt_fiber_track_nodes;
void vrt_tick(unsigned n);
void vrt_tick64(uint64_t n); /* as vrt_tick, any count (virtual time jumps) */
#endif
