/* vrt — verification runtime for libfiber (see /verif/DESIGN.md §5).
 *
 * Implements the __tsan_* compiler ABI itself (the library is compiled with
 * -fsanitize=thread but never linked against libtsan), serialises all kernel
 * threads, decides at every scheduling point which thread performs its next
 * shared access, and records, per step, the change of the registered
 * ("tracked") memory as one ndjson line.
 */
#ifndef VRT_H
#define VRT_H
#include <stddef.h>
#include <stdint.h>

#ifdef __cplusplus
extern "C" {
void vrt_trace_call(const char* name);
#endif

enum { VD_I32 = 1, VD_U32, VD_I64, VD_U64, VD_PTR, VD_CUSTOM, VD_U8 };

#define VF_NOEPOCH 1   /* changes of this field do not count as global progress */
#define VF_NOSCHED 2   /* accesses are not scheduling points (still diffed)     */
#define VF_WAKEIDLE 4  /* a change of this field wakes idle (polling) threads      */

typedef struct vrt_field {
  const char* name;
  size_t off;
  size_t size;
  int dec;
  int flags;
  /* VD_CUSTOM: render a JSON value for the object at base into out */
  void (*custom)(const void* base, char* out, size_t cap);
} vrt_field_t;

void vrt_init(void);
/* register an object with decoded fields; name is copied */
void vrt_reg_obj(const char* name, void* base, size_t size,
                 const vrt_field_t* fields, int nfields);
/* register a bare name for a memory range (pointer rendering, free watching) */
void vrt_reg_name(const char* name, void* base, size_t size);
/* free() of this base is intercepted: range becomes dead, accesses are reported */
void vrt_watch_free(void* base);
/* rename (used when a node changes its role) */
const char* vrt_name_of(const void* p);
void vrt_atomic_section(const char* function_name);
void vrt_start(void);
/* API-level record: body is the inside of a JSON object, e.g. "\"op\":\"lock\"" */
void vrt_api(const char* fmt, ...) __attribute__((format(printf, 1, 2)));
void vrt_note(const char* fmt, ...) __attribute__((format(printf, 1, 2)));
void vrt_end(void) __attribute__((noreturn));
unsigned vrt_rand(unsigned n); /* scenario-level randomness derived from the seed */
int vrt_thread_index(void);
const char* vrt_getenv(const char* k, const char* dflt);
long vrt_getenv_int(const char* k, long dflt);
/* environment actions (virtual timer ticks ...) */
void vrt_env_action(const char* name, int (*enabled)(void), void (*act)(void));
/* next fiber created gets this name (fiber regime) */
void vrt_next_fiber_name(const char* name);
/* synthetic tracked value owned by the driver (ghost), e.g. abstract content */
void vrt_yield_hint(void); /* mark the calling thread as waiting for progress */
void vrt_progress(void); /* something outside tracked memory changed (kernel state) */
void vrt_nosched_begin(void);
void vrt_nosched_end(void);
extern void (*vrt_on_quiescent)(void);
/* raw I/O helpers that bypass libfiber's libc shims */
long vrt_raw_write(int fd, const void* buf, size_t n);

#ifdef __cplusplus
}
#endif
#endif
