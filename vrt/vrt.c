/* vrt.c — verification runtime: own __tsan_* ABI, controlled scheduler,
 * tracked-memory diffing, ndjson trace. Compiled WITHOUT -fsanitize=thread.
 * Never calls a libc function that libfiber shims (read/write/close/usleep/...).
 */
#ifndef _GNU_SOURCE
#define _GNU_SOURCE
#endif
#include "vrt.h"

#include <elf.h>
#include <errno.h>
#include <fcntl.h>
#include <linux/futex.h>
#include <pthread.h>
#include <signal.h>
#include <stdarg.h>
#include <stdio.h>
#include <stdlib.h>
#include <string.h>
#include <sys/epoll.h>
#include <sys/eventfd.h>
#include <sys/mman.h>
#include <sys/stat.h>
#include <sys/syscall.h>
#include <sys/timerfd.h>
#include <unistd.h>

/* ------------------------------------------------------------------ raw I/O */
long vrt_raw_write(int fd, const void* buf, size_t n) {
  size_t done = 0;
  while (done < n) {
    long r = syscall(SYS_write, fd, (const char*)buf + done, n - done);
    if (r < 0) {
      if (errno == EINTR) continue;
      return -1;
    }
    done += (size_t)r;
  }
  return (long)done;
}
static void raw_puts(const char* s) { vrt_raw_write(2, s, strlen(s)); }
static void die(const char* msg) {
  raw_puts("vrt: fatal: ");
  raw_puts(msg);
  raw_puts("\n");
  syscall(SYS_exit_group, 70);
  __builtin_unreachable();
}

const char* vrt_getenv(const char* k, const char* dflt) {
  const char* v = getenv(k);
  return (v && *v) ? v : dflt;
}
long vrt_getenv_int(const char* k, long dflt) {
  const char* v = getenv(k);
  return (v && *v) ? strtol(v, NULL, 0) : dflt;
}

/* ------------------------------------------------------------------ PRNG */
static uint64_t g_rng = 88172645463325252ULL, g_rng2 = 0x9E3779B97F4A7C15ULL;
static uint64_t xs(uint64_t* s) {
  uint64_t x = *s;
  x ^= x << 13;
  x ^= x >> 7;
  x ^= x << 17;
  return *s = x;
}
static unsigned rnd(unsigned n) { return n ? (unsigned)((xs(&g_rng) >> 11) % n) : 0; }
unsigned vrt_rand(unsigned n) { return n ? (unsigned)((xs(&g_rng2) >> 11) % n) : 0; }

/* ------------------------------------------------------------------ ELF symbols */
typedef struct { uintptr_t lo, hi; const char* name; } sym_t;
static sym_t* g_syms;
static int g_nsyms;
static int sym_cmp(const void* a, const void* b) {
  const sym_t *x = a, *y = b;
  return x->lo < y->lo ? -1 : x->lo > y->lo;
}
static void load_symbols(void) {
  int fd = (int)syscall(SYS_open, "/proc/self/exe", O_RDONLY);
  if (fd < 0) return;
  struct stat st;
  if (syscall(SYS_fstat, fd, &st)) return;
  void* m = mmap(NULL, (size_t)st.st_size, PROT_READ, MAP_PRIVATE, fd, 0);
  syscall(SYS_close, fd);
  if (m == MAP_FAILED) return;
  Elf64_Ehdr* eh = m;
  Elf64_Shdr* sh = (Elf64_Shdr*)((char*)m + eh->e_shoff);
  for (int i = 0; i < eh->e_shnum; i++) {
    if (sh[i].sh_type != SHT_SYMTAB) continue;
    Elf64_Sym* sy = (Elf64_Sym*)((char*)m + sh[i].sh_offset);
    int n = (int)(sh[i].sh_size / sizeof(Elf64_Sym));
    const char* str = (char*)m + sh[sh[i].sh_link].sh_offset;
    g_syms = calloc((size_t)n, sizeof(sym_t));
    for (int j = 0; j < n; j++) {
      if (ELF64_ST_TYPE(sy[j].st_info) != STT_FUNC || !sy[j].st_size) continue;
      g_syms[g_nsyms].lo = sy[j].st_value;
      g_syms[g_nsyms].hi = sy[j].st_value + sy[j].st_size;
      g_syms[g_nsyms].name = str + sy[j].st_name;
      g_nsyms++;
    }
  }
  qsort(g_syms, (size_t)g_nsyms, sizeof(sym_t), sym_cmp);
}
static const sym_t* sym_of(uintptr_t pc) {
  int lo = 0, hi = g_nsyms - 1;
  while (lo <= hi) {
    int mid = (lo + hi) / 2;
    if (pc < g_syms[mid].lo) hi = mid - 1;
    else if (pc >= g_syms[mid].hi) lo = mid + 1;
    else return &g_syms[mid];
  }
  return NULL;
}
static const char* fn_of(uintptr_t pc) {
  const sym_t* s = sym_of(pc);
  return s ? s->name : "?";
}

/* ------------------------------------------------------------------ trace buffer */
static char* g_buf;
static size_t g_len, g_cap;
static long g_evno;
static void buf_add(const char* s, size_t n) {
  if (g_len + n + 1 > g_cap) {
    g_cap = (g_cap ? g_cap * 2 : (1u << 20)) + n;
    g_buf = realloc(g_buf, g_cap);
    if (!g_buf) die("oom");
  }
  memcpy(g_buf + g_len, s, n);
  g_len += n;
  g_buf[g_len] = 0;
}
static void buf_printf(const char* fmt, ...) {
  char tmp[2048];
  va_list ap;
  va_start(ap, fmt);
  int n = vsnprintf(tmp, sizeof tmp, fmt, ap);
  va_end(ap);
  if (n < 0) return;
  if ((size_t)n >= sizeof tmp) n = sizeof tmp - 1;
  buf_add(tmp, (size_t)n);
}
static const char* g_trace_path;
static void flush_trace(void) {
  if (!g_trace_path) return;
  int fd = (int)syscall(SYS_open, g_trace_path, O_WRONLY | O_CREAT | O_TRUNC, 0644);
  if (fd < 0) return;
  vrt_raw_write(fd, g_buf, g_len);
  syscall(SYS_close, fd);
}

/* ------------------------------------------------------------------ registry */
static uint64_t g_qepoch = 1; /* bumped when a run queue (VF_WAKEIDLE field) changes or kernel events arrive */
static int g_have_wakeidle;
static int g_nonempty; /* number of VF_WAKEIDLE fields (run queues) whose content is not [] */
#define MAXOBJ 512
#define MAXFLD 2048
typedef struct {
  char name[40];
  uintptr_t base;
  size_t size;
  int dead;
  int watch;
  int nfields; /* 0: bare name */
} obj_t;
typedef struct {
  int obj;
  char key[72];
  char fname[32];
  uintptr_t addr;
  size_t size;
  int dec, flags;
  void (*custom)(const void*, char*, size_t);
  char shadow[1024];
} fld_t;
static obj_t g_obj[MAXOBJ];
static int g_nobj;
static fld_t g_fld[MAXFLD];
static int g_nfld;

typedef struct { uintptr_t lo, hi; int fld; int obj; } range_t;
static range_t g_rng_tab[MAXFLD + MAXOBJ];
static int g_nrng;
static int g_rng_dirty = 1;
static int rng_cmp(const void* a, const void* b) {
  const range_t *x = a, *y = b;
  return x->lo < y->lo ? -1 : x->lo > y->lo;
}
static void rebuild_ranges(void) {
  g_nrng = 0;
  for (int i = 0; i < g_nfld; i++) {
    if (g_fld[i].dec == VD_CUSTOM) continue;
    if (g_obj[g_fld[i].obj].dead) continue;
    g_rng_tab[g_nrng++] = (range_t){g_fld[i].addr, g_fld[i].addr + g_fld[i].size, i, g_fld[i].obj};
  }
  for (int i = 0; i < g_nobj; i++)
    if (g_obj[i].dead) g_rng_tab[g_nrng++] = (range_t){g_obj[i].base, g_obj[i].base + g_obj[i].size, -1, i};
  qsort(g_rng_tab, (size_t)g_nrng, sizeof(range_t), rng_cmp);
  g_rng_dirty = 0;
}
static int in_any_object(uintptr_t a) {
  for (int i = 0; i < g_nobj; i++)
    if (a >= g_obj[i].base && a < g_obj[i].base + g_obj[i].size) return 1;
  return 0;
}
/* returns range overlapping [a, a+n) or NULL (ranges do not overlap each other
   except dead objects that contain nothing live) */
static const range_t* range_of(uintptr_t a, size_t n) {
  if (g_rng_dirty) rebuild_ranges();
  int lo = 0, hi = g_nrng - 1;
  while (lo <= hi) {
    int mid = (lo + hi) / 2;
    if (a + n <= g_rng_tab[mid].lo) hi = mid - 1;
    else if (a >= g_rng_tab[mid].hi) lo = mid + 1;
    else return &g_rng_tab[mid];
  }
  return NULL;
}

const char* vrt_name_of(const void* p) {
  static __thread char tmps[8][64];
  static __thread unsigned tmpi;
  char* tmp = tmps[tmpi++ & 7]; /* rotating buffers: several results may be alive in one format call */
  if (!p) return "null";
  uintptr_t a = (uintptr_t)p;
  for (int i = g_nobj - 1; i >= 0; i--) {
    if (a == g_obj[i].base) return g_obj[i].name;
  }
  for (int i = 0; i < g_nfld; i++)
    if (g_fld[i].addr == a && g_fld[i].dec != VD_CUSTOM && a != g_obj[g_fld[i].obj].base) return g_fld[i].key;
  for (int i = g_nobj - 1; i >= 0; i--) {
    if (a > g_obj[i].base && a < g_obj[i].base + g_obj[i].size) {
      snprintf(tmp, 64, "%s+%lu", g_obj[i].name, (unsigned long)(a - g_obj[i].base));
      return tmp;
    }
  }
  if (a < 4096) {
    snprintf(tmp, 64, "#%lu", (unsigned long)a);
    return tmp;
  }
  if (a >= (uintptr_t)-4096) {
    snprintf(tmp, 64, "#-%lu", (unsigned long)(-a));
    return tmp;
  }
  return "unk";
}

static void render(fld_t* f, char* out, size_t cap) {
  const void* p = (const void*)f->addr;
  if (g_obj[f->obj].dead) {
    if (f->dec == VD_PTR) snprintf(out, cap, "\"dead\"");
    else if (f->dec == VD_CUSTOM) snprintf(out, cap, "[\"dead\"]");
    else snprintf(out, cap, "-999");
    return;
  }
  switch (f->dec) {
    case VD_U8: snprintf(out, cap, "%u", (unsigned)*(const uint8_t*)p); break;
    case VD_I32: snprintf(out, cap, "%d", *(const int32_t*)p); break;
    case VD_U32: snprintf(out, cap, "%u", *(const uint32_t*)p); break;
    case VD_I64: snprintf(out, cap, "%lld", (long long)*(const int64_t*)p); break;
    case VD_U64: snprintf(out, cap, "%llu", (unsigned long long)*(const uint64_t*)p); break;
    case VD_PTR: snprintf(out, cap, "\"%s\"", vrt_name_of(*(void* const*)p)); break;
    case VD_CUSTOM: f->custom((const void*)g_obj[f->obj].base, out, cap); break;
    default: snprintf(out, cap, "null");
  }
}

static int g_started;
static void emit_init_fields(int from);

static int add_obj(const char* name, void* base, size_t size) {
  if (g_nobj >= MAXOBJ) die("too many objects");
  obj_t* o = &g_obj[g_nobj];
  memset(o, 0, sizeof *o);
  snprintf(o->name, sizeof o->name, "%s", name);
  o->base = (uintptr_t)base;
  o->size = size;
  g_rng_dirty = 1;
  return g_nobj++;
}
void vrt_reg_name(const char* name, void* base, size_t size) { add_obj(name, base, size); }
void vrt_reg_obj(const char* name, void* base, size_t size, const vrt_field_t* fields, int nf) {
  int oi = add_obj(name, base, size);
  g_obj[oi].nfields = nf;
  int from = g_nfld;
  for (int i = 0; i < nf; i++) {
    if (g_nfld >= MAXFLD) die("too many fields");
    fld_t* f = &g_fld[g_nfld++];
    memset(f, 0, sizeof *f);
    f->obj = oi;
    snprintf(f->key, sizeof f->key, "%s.%s", name, fields[i].name);
    snprintf(f->fname, sizeof f->fname, "%s", fields[i].name);
    f->addr = (uintptr_t)base + fields[i].off;
    f->size = fields[i].size;
    f->dec = fields[i].dec;
    f->flags = fields[i].flags;
    f->custom = fields[i].custom;
    f->shadow[0] = 0;
    if (f->flags & VF_WAKEIDLE) g_have_wakeidle = 1;
  }
  if (g_started) emit_init_fields(from);
}
void vrt_watch_free(void* base) {
  for (int i = g_nobj - 1; i >= 0; i--)
    if (g_obj[i].base == (uintptr_t)base) {
      g_obj[i].watch = 1;
      return;
    }
}

/* ------------------------------------------------------------------ threads + scheduler */
#define MAXT 16
typedef struct vthread {
  int idx;
  volatile int go;
  int alive, started;
  int yielding;
  uint64_t yield_epoch;
  int in_rt;
  int atomic_depth;
  int nosched;
  /* current step */
  int step_open;
  const char* k;
  uintptr_t addr, pc;
  int mo, relevant, fldidx;
  long long aold;
  int have_old, casres;
  /* untracked write watch */
  uintptr_t uw_addr;
  size_t uw_size;
  uint64_t uw_old;
  long quiet_points; /* points since this thread last changed something */
  void* running;     /* fiber whose context executes on this thread (glue) */
  void* (*fn)(void*);
  void* arg;
  int prio;
  int wait_for;          /* thread index this thread joins, or -1 */
  long last_chosen;      /* g_points when this thread last got the turn */
  uint64_t lastpoll_epoch; /* idle thread already got its extra poll in this epoch */
  pthread_t tid;
} vthread_t;
#define Y_RELAX 1
#define Y_SPIN 2
#define Y_IDLE 3
static vthread_t g_thr[MAXT];
static int g_nthr;
static __thread vthread_t* self;
static int g_on; /* controlled scheduling active */
static uint64_t g_epoch = 1;

static long g_points, g_max_points = 400000;
static int g_policy; /* 0 rand-sticky, 1 pct, 2 round-robin-ish */
static int g_stick = 70;
static int g_spin_limit = 80;
static int g_fair_run = 3000;
static int g_long_stalls;
static FILE* g_dummy;
/* guide: run the named thread until one of its steps changes tracked memory */
#define GUIDE_ENV (-1000)
/* guide directive: "t<k>" = run thread k until one of its steps changes tracked memory;
   "t<k>@<fn>:<field>" = run thread k until it has performed an access to a tracked field named
   <field> from function <fn> (a read the model behaviour places at this position); "env" */
typedef struct {
  int thr;
  char fn[64];
  char fld[32];
} guide_t;
static guide_t* g_guide;
static int g_nguide, g_iguide;
/* replay */
static int* g_replay;
static int g_nreplay, g_ireplay;
static int* g_picks;
static int g_npicks, g_cappicks;
static int g_pct_d, g_pct_k;
static long g_pct_pts[8];

typedef struct { const char* name; int (*enabled)(void); void (*act)(void); } env_t;
static env_t g_env[8];
static int g_nenv;
static int g_env_pct = 3; /* % chance per point to consider an env action */
void vrt_env_action(const char* name, int (*enabled)(void), void (*act)(void)) {
  g_env[g_nenv++] = (env_t){name, enabled, act};
}
void (*vrt_on_quiescent)(void);

int vrt_thread_index(void) { return self ? self->idx : -1; }

static void futex_wait(volatile int* a, int v) { syscall(SYS_futex, a, FUTEX_WAIT, v, NULL, NULL, 0); }
static void futex_wake(volatile int* a) { syscall(SYS_futex, a, FUTEX_WAKE, 1, NULL, NULL, 0); }
static void wait_turn(vthread_t* s) {
  while (!__atomic_load_n(&s->go, __ATOMIC_ACQUIRE)) futex_wait(&s->go, 0);
  __atomic_store_n(&s->go, 0, __ATOMIC_RELAXED);
}
static void give_turn(vthread_t* t) {
  __atomic_store_n(&t->go, 1, __ATOMIC_RELEASE);
  futex_wake(&t->go);
}

static void finish_step(vthread_t* s);
static void end_run(const char* why) __attribute__((noreturn));

static void emit_init_fields(int from) {
  /* {"k":"init","w":{...}} for fields from index `from` */
  if (from >= g_nfld) return;
  if (g_on && self && g_guide && g_iguide < g_nguide && g_guide[g_iguide].thr == self->idx && !g_guide[g_iguide].fn[0]) g_iguide++;
  buf_printf("{\"i\":%ld,\"k\":\"reg\",\"t\":\"t%d\",\"w\":[", g_evno++, self ? self->idx : 0);
  int first = 1;
  for (int i = from; i < g_nfld; i++) {
    char v[1024];
    render(&g_fld[i], v, sizeof v);
    snprintf(g_fld[i].shadow, sizeof g_fld[i].shadow, "%s", v);
    buf_printf("%s[\"%s\",\"%s\",%s]", first ? "" : ",", g_obj[g_fld[i].obj].name, g_fld[i].fname, v);
    first = 0;
  }
  buf_printf("]}\n");
}

/* VRT_STALL=<fn>:<field>:<k>: the thread that completes the k-th access to a tracked field <field>
   from function <fn> is parked until no other thread can make progress (or for 5000 scheduling
   points): the maximal delay at a chosen read - e.g. between taking a snapshot and the
   compare-and-swap that uses it.  tools/check.py derives the points from the read events seen in
   ordinary executions of the scenario (scenario key "stall"). */
static char g_stall_fn[64], g_stall_fld[32];
static int g_stall_k, g_stall_seen, g_stalled = -1;
static long g_stall_points;

static int eligible(vthread_t* t) {
  if (!t->alive || !t->started) return 0;
  if (t->idx == g_stalled) return 0;
  if (t->wait_for >= 0 && g_thr[t->wait_for].alive) return 0;
  if (t->yielding == Y_IDLE && g_have_wakeidle) return g_nonempty > 0 || t->yield_epoch != g_qepoch;
  if (t->yielding && t->yield_epoch == g_epoch) return 0;
  return 1;
}
static int g_spin_resumes;
static uint64_t g_spin_epoch;

static void record_pick(int p) {
  if (g_npicks == g_cappicks) {
    g_cappicks = g_cappicks ? g_cappicks * 2 : 4096;
    g_picks = realloc(g_picks, sizeof(int) * (size_t)g_cappicks);
  }
  g_picks[g_npicks++] = p;
}

/* choose who runs next; returns thread index, or -1 - k for env action k, or -100 quiescent */
static int pick(vthread_t* cur) {
  int el[MAXT], n = 0;
  for (int i = 0; i < g_nthr; i++)
    if (eligible(&g_thr[i])) el[n++] = i;
  if (g_replay && g_ireplay < g_nreplay) {
    int p = g_replay[g_ireplay++];
    if (p <= -1 && p > -100) return p; /* env action */
    if (p >= 0 && p < g_nthr && g_thr[p].alive && g_thr[p].started &&
        !(g_thr[p].wait_for >= 0 && g_thr[g_thr[p].wait_for].alive))
      return p;
    /* infeasible directive: fall through to default policy */
  }
  /* env actions */
  int en[8], ne = 0;
  for (int k = 0; k < g_nenv; k++)
    if (g_env[k].enabled()) en[ne++] = k;
  while (g_guide && g_iguide < g_nguide) {
    int d = g_guide[g_iguide].thr;
    if (d == GUIDE_ENV) {
      g_iguide++;
      if (ne) return -1 - en[0];
      continue;
    }
    if (d >= 0 && d < g_nthr && g_thr[d].alive && g_thr[d].started &&
        !(g_thr[d].wait_for >= 0 && g_thr[g_thr[d].wait_for].alive) &&
        !(g_thr[d].yielding && g_thr[d].yield_epoch == g_epoch && g_thr[d].quiet_points > 3 * g_spin_limit))
      return d;
    buf_printf("{\"i\":%ld,\"k\":\"note\",\"guide_stop\":%d}\n", g_evno++, g_iguide);
    g_iguide = g_nguide; /* infeasible: fall back to the seeded policy */
  }
  int others_idle = 0;
  if (g_stalled >= 0) {
    /* every other kernel thread sits in its idle loop (or is blocked): nothing but the environment
       can make progress - the parked thread may go on even though timer ticks keep the pollers busy */
    others_idle = 1;
    for (int i = 0; i < g_nthr; i++) {
      vthread_t* t = &g_thr[i];
      if (i == g_stalled || !t->alive || !t->started) continue;
      if (t->wait_for >= 0 && g_thr[t->wait_for].alive) continue;
      if (t->yielding != Y_IDLE) others_idle = 0;
    }
  }
  if (g_stalled >= 0 && (n == 0 || others_idle || ++g_stall_points > 5000)) {
    int p = g_stalled;
    g_stalled = -1;
    buf_printf("{\"i\":%ld,\"k\":\"note\",\"stall_end\":%d,\"others_quiet\":%d}\n", g_evno++, p, n == 0);
    if (g_thr[p].alive && !(g_thr[p].wait_for >= 0 && g_thr[g_thr[p].wait_for].alive)) return p;
  }
  if (n == 0) {
    /* nothing can run: give idle pollers one extra poll per epoch (kernel-side
       readiness is not visible as a memory change), then heuristic spinners a
       bounded number of retries, then environment actions; else quiescent */
    for (int i = 0; i < g_nthr; i++) {
      vthread_t* t = &g_thr[i];
      if (t->alive && t->started && t->yielding == Y_IDLE && t->lastpoll_epoch != g_epoch + g_qepoch) {
        t->lastpoll_epoch = g_epoch + g_qepoch;
        return i;
      }
    }
    if (g_spin_epoch != g_epoch) {
      g_spin_epoch = g_epoch;
      g_spin_resumes = 0;
    }
    if (g_spin_resumes < 40) {
      static int rr;
      for (int j = 0; j < g_nthr; j++) {
        int i = (rr + 1 + j) % g_nthr; /* round robin: every waiting thread gets its retries */
        vthread_t* t = &g_thr[i];
        /* busy-waiters (heuristic, or cpu_relax after e.g. a failed CAS from a stale snapshot,
           whose retry needs no foreign change) get a bounded number of retries */
        if (t->alive && t->started && (t->yielding == Y_SPIN || t->yielding == Y_RELAX) &&
            !(t->wait_for >= 0 && g_thr[t->wait_for].alive)) {
          g_spin_resumes++;
          t->quiet_points = 0;
          rr = i;
          return i;
        }
      }
    }
    if (ne) return -1 - en[rnd((unsigned)ne)];
    return -100;
  }
  if (ne && (int)rnd(100) < g_env_pct) return -1 - en[rnd((unsigned)ne)];
  if (g_policy == 1) {
    static int run_len, last = -1, demote = -10;
    if (cur && cur->idx == last) run_len++;
    else run_len = 0;
    last = cur ? cur->idx : -1;
    if (cur && run_len > g_fair_run) { /* fairness: a polling loop must not monopolise the schedule */
      cur->prio = --demote;
      run_len = 0;
    }
    for (int d = 0; d < g_pct_d; d++)
      if (g_points == g_pct_pts[d] && cur) cur->prio = -(d + 1);
    int best = el[0];
    for (int i = 1; i < n; i++)
      if (g_thr[el[i]].prio > g_thr[best].prio) best = el[i];
    /* starvation freedom: an eligible thread that has not been chosen for a long time gets the
       turn (two higher-priority threads that keep re-enabling each other must not lock it out) */
    long age_limit = 2L * g_fair_run + 2000;
    for (int i = 0; i < n; i++)
      if (g_points - g_thr[el[i]].last_chosen > age_limit) best = el[i];
    return best;
  }
  if (cur && eligible(cur) && (int)rnd(100) < g_stick) return cur->idx;
  return el[rnd((unsigned)n)];
}

static void do_env(int k) {
  buf_printf("{\"i\":%ld,\"k\":\"env\",\"a\":\"%s\"}\n", g_evno++, g_env[k].name);
  g_env[k].act();
  g_epoch++;
  g_qepoch++;
}

/* the calling thread is at a scheduling point and holds the turn */
static void sched(vthread_t* s) {
  for (;;) {
    if (++g_points > g_max_points) end_run("budget");
    int p = pick(s);
    if (p == -100) end_run("quiescent");
    if (p < 0) {
      record_pick(p);
      do_env(-1 - p);
      continue;
    }
    record_pick(p);
    vthread_t* t = &g_thr[p];
    t->yielding = 0;
    t->last_chosen = g_points;
    if (t == s) return;
    give_turn(t);
    wait_turn(s);
    return;
  }
}

static void diff_and_emit(vthread_t* s, int force) {
  /* compute diff of tracked fields vs shadow */
  static char line[65536];
  size_t n = 0;
  int changed = 0, progress = 0;
  for (int i = 0; i < g_nfld; i++) {
    fld_t* f = &g_fld[i];
    char v[1024];
    render(f, v, sizeof v);
    if (strcmp(v, f->shadow)) {
      n += (size_t)snprintf(line + n, sizeof line - n, "%s[\"%s\",\"%s\",%s]", changed ? "," : "",
                            g_obj[f->obj].name, f->fname, v);
      if (f->flags & VF_WAKEIDLE) {
        int was = f->shadow[0] && strcmp(f->shadow, "[]") != 0;
        int is = strcmp(v, "[]") != 0;
        g_nonempty += is - was;
      }
      snprintf(f->shadow, sizeof f->shadow, "%s", v);
      changed++;
      if (!(f->flags & VF_NOEPOCH)) progress = 1;
      if (n > sizeof line - 512) break;
    }
  }
  line[n] = 0;
  if (g_stall_k > 0 && g_stalled < 0 && g_stall_seen < g_stall_k && s->fldidx >= 0 && s->pc) {
    const char* key = g_fld[s->fldidx].key;
    const char* dot = strrchr(key, '.');
    if (dot && !strcmp(dot + 1, g_stall_fld) && !strcmp(fn_of(s->pc), g_stall_fn) && ++g_stall_seen == g_stall_k) {
      g_stalled = s->idx;
      g_stall_points = 0;
      buf_printf("{\"i\":%ld,\"k\":\"note\",\"stall_begin\":%d}\n", g_evno++, s->idx);
    }
  }
  if (g_guide && g_iguide < g_nguide && g_guide[g_iguide].thr == s->idx) {
    const guide_t* gd = &g_guide[g_iguide];
    if (gd->fn[0]) {
      if (s->fldidx >= 0 && s->pc) {
        const char* key = g_fld[s->fldidx].key;
        const char* dot = strrchr(key, '.');
        if (dot && !strcmp(dot + 1, gd->fld) && !strcmp(fn_of(s->pc), gd->fn)) g_iguide++;
      }
    } else if (changed)
      g_iguide++;
    if (g_iguide == g_nguide) buf_printf("{\"i\":%ld,\"k\":\"note\",\"guide_done\":%d}\n", g_evno++, g_nguide);
  }
  if (s->uw_addr) {
    uint64_t now = 0;
    memcpy(&now, (void*)s->uw_addr, s->uw_size > 8 ? 8 : s->uw_size);
    if (now != s->uw_old) progress = 1;
    s->uw_addr = 0;
  }
  if (progress) {
    g_epoch++;
    s->quiet_points = 0;
  }
  if (!changed && !force) return;
  buf_printf("{\"i\":%ld,\"t\":\"t%d\",\"k\":\"%s\"", g_evno++, s->idx, s->k ? s->k : "?");
  if (s->fldidx >= 0) buf_printf(",\"a\":\"%s\"", g_fld[s->fldidx].key);
  if (s->pc) buf_printf(",\"fn\":\"%s\"", fn_of(s->pc));
  if (s->mo >= 0) buf_printf(",\"mo\":%d", s->mo);
  if (s->have_old) buf_printf(",\"old\":%lld", s->aold);
  if (s->casres >= 0) buf_printf(",\"ok\":%d", s->casres);
  buf_printf(",\"w\":[%s]}\n", line);
}

static void finish_step(vthread_t* s) {
  if (!s->step_open) return;
  diff_and_emit(s, s->relevant);
  s->step_open = 0;
}
static void open_step(vthread_t* s, const char* k, uintptr_t addr, uintptr_t pc, int mo, int relevant, int fldidx) {
  s->step_open = 1;
  s->k = k;
  s->addr = addr;
  s->pc = pc;
  s->mo = mo;
  s->relevant = relevant;
  s->fldidx = fldidx;
  s->have_old = 0;
  s->casres = -1;
}

static void dead_access(vthread_t* s, const range_t* r, uintptr_t pc, const char* k) {
  buf_printf("{\"i\":%ld,\"t\":\"t%d\",\"k\":\"dead_access\",\"o\":\"%s\",\"acc\":\"%s\",\"fn\":\"%s\"}\n", g_evno++,
             s ? s->idx : -1, g_obj[r->obj].name, k, fn_of(pc));
}

extern void vrt_glue_plain_access(uintptr_t addr, size_t size, int iswrite, uintptr_t pc) __attribute__((weak));
static int g_xstack;
/* Central scheduling point. iswrite: 0 read, 1 write/RMW. sp: unconditional
   scheduling point (atomic, volatile, hook, syscall); otherwise only if the
   address is tracked. Returns 1 if the access is to a tracked field. */
static int point(const char* k, const void* addrp, size_t size, int iswrite, int sp, int mo, uintptr_t pc) {
  vthread_t* s = self;
  if (!g_on || !s || s->in_rt) return 0;
  s->in_rt = 1;
  uintptr_t addr = (uintptr_t)addrp;
  if (g_xstack && !sp && addr && vrt_glue_plain_access) vrt_glue_plain_access(addr, size, iswrite, pc);
  const range_t* r = addr ? range_of(addr, size) : NULL;
  int fldidx = -1;
  if (r) {
    if (r->fld < 0) {
      dead_access(s, r, pc, k);
      r = NULL;
    } else if (g_fld[r->fld].flags & VF_NOSCHED) {
      s->in_rt = 0;
      return 1; /* thread-private field: diffed, but not a scheduling point */
    } else
      fldidx = r->fld;
  }
  if (!(sp || fldidx >= 0) || s->nosched || (s->atomic_depth > 0 && strcmp(k, "RELAX"))) {
    s->in_rt = 0;
    return fldidx >= 0;
  }
  finish_step(s);
  s->quiet_points++;
  if (s->quiet_points > g_spin_limit && !s->yielding) {
    if (g_long_stalls > 0 && --g_long_stalls == 0) {
      /* the long stalls of this execution are used up: back to the ordinary limits (a run that keeps
         every spin that long exhausts the step budget without being stuck) */
      g_spin_limit = 80;
      g_fair_run = 3000;
    }
    /* busy-waiting without progress: let the others run until something changes */
    s->yielding = Y_SPIN;
    s->yield_epoch = g_epoch;
  }
  sched(s);
  if (addr) {
    /* while this thread was parked the object may have been reclaimed: the access it is
       about to perform is then the use-after-free that matters */
    const range_t* r2 = range_of(addr, size);
    if (r2 && r2->fld < 0) {
      dead_access(s, r2, pc, k);
      fldidx = -1;
    }
  }
  open_step(s, k, addr, pc, mo, fldidx >= 0 || !addr || in_any_object(addr), fldidx);
  if (iswrite && fldidx < 0 && addr) {
    s->uw_addr = addr;
    s->uw_size = size;
    s->uw_old = 0;
    memcpy(&s->uw_old, addrp, size > 8 ? 8 : size);
  }
  s->in_rt = 0;
  return fldidx >= 0;
}

void vrt_yield_hint(void) {
  vthread_t* s = self;
  if (!g_on || !s) return;
  s->in_rt = 1;
  finish_step(s);
  s->yielding = Y_RELAX;
  s->yield_epoch = g_epoch;
  sched(s);
  open_step(s, "cont", 0, 0, -1, 0, -1);
  s->in_rt = 0;
}
void vrt_progress(void) {
  g_epoch++;
  g_qepoch++;
}
void vrt_nosched_begin(void) { if (self) self->nosched++; }
void vrt_nosched_end(void) { if (self) self->nosched--; }

static void marker_begin(vthread_t* s) {
  s->in_rt++;
  if (g_on) finish_step(s);
}
static void marker_end(vthread_t* s) {
  if (g_on) open_step(s, "cont", 0, 0, -1, 0, -1);
  s->in_rt--;
}

void vrt_api(const char* fmt, ...) {
  vthread_t* s = self;
  if (!s) return;
  marker_begin(s);
  char tmp[1024];
  va_list ap;
  va_start(ap, fmt);
  vsnprintf(tmp, sizeof tmp, fmt, ap);
  va_end(ap);
  buf_printf("{\"i\":%ld,\"t\":\"t%d\",\"k\":\"api\",%s}\n", g_evno++, s->idx, tmp);
  marker_end(s);
}
void vrt_note(const char* fmt, ...) {
  vthread_t* s = self;
  if (!s) return;
  marker_begin(s);
  char tmp[1024];
  va_list ap;
  va_start(ap, fmt);
  vsnprintf(tmp, sizeof tmp, fmt, ap);
  va_end(ap);
  buf_printf("{\"i\":%ld,\"t\":\"t%d\",\"k\":\"note\",%s}\n", g_evno++, s->idx, tmp);
  marker_end(s);
}

static void write_picks(void) {
  const char* p = getenv("VRT_PICKS_OUT");
  if (!p || !*p) return;
  int fd = (int)syscall(SYS_open, p, O_WRONLY | O_CREAT | O_TRUNC, 0644);
  if (fd < 0) return;
  char tmp[32];
  for (int i = 0; i < g_npicks; i++) {
    int n = snprintf(tmp, sizeof tmp, "%d\n", g_picks[i]);
    vrt_raw_write(fd, tmp, (size_t)n);
  }
  syscall(SYS_close, fd);
}

static void end_run(const char* why) {
  vthread_t* s = self;
  if (s) {
    s->in_rt = 1;
    if (s->step_open) finish_step(s);
  }
  g_on = 0;
  if (!strcmp(why, "quiescent") && vrt_on_quiescent) vrt_on_quiescent();
  if (strcmp(why, "end"))
    for (int i = 0; i < g_nthr; i++) /* diagnosis of a stuck / over-budget run */
      buf_printf("{\"i\":%ld,\"k\":\"note\",\"thr\":%d,\"alive\":%d,\"yielding\":%d,\"quiet\":%ld,\"prio\":%d,\"spin_limit\":%d}\n",
                 g_evno++, i, g_thr[i].alive, g_thr[i].yielding, g_thr[i].quiet_points, g_thr[i].prio, g_spin_limit);
  buf_printf("{\"i\":%ld,\"k\":\"%s\",\"points\":%ld}\n", g_evno++, why, g_points);
  flush_trace();
  write_picks();
  syscall(SYS_exit_group, 0);
  __builtin_unreachable();
}
void vrt_end(void) { end_run("end"); }

static void on_signal(int sig) {
  g_on = 0;
  buf_printf("{\"i\":%ld,\"k\":\"crash\",\"sig\":%d,\"t\":\"t%d\"}\n", g_evno++, sig, self ? self->idx : -1);
  flush_trace();
  write_picks();
  syscall(SYS_exit_group, 0);
}

void vrt_atomic_section(const char* name);
#define MAXSEC 64
static struct { uintptr_t lo, hi; } g_sec[MAXSEC];
static int g_nsec;
void vrt_atomic_section(const char* name) {
  int found = 0;
  for (int i = 0; i < g_nsyms; i++)
    if (!strcmp(g_syms[i].name, name)) {
      if (g_nsec < MAXSEC) {
        g_sec[g_nsec].lo = g_syms[i].lo;
        g_sec[g_nsec].hi = g_syms[i].hi;
        g_nsec++;
        found = 1;
      }
    }
  if (found) return;
  raw_puts("vrt: warning: atomic section function not found: ");
  raw_puts(name);
  raw_puts("\n");
}
/* traced calls: the entry of the function is a scheduling point and an event of its own ("CALL"),
   its body stays instrumented as usual (unlike an atomic section).  Lets trace validation pin every
   call of e.g. mpsc_fifo_trypop to the model label that performs it, so that a retry loop the model
   does not have (or lacks) is a divergence even though a failed attempt changes nothing. */
static struct { uintptr_t lo, hi; } g_tr[MAXSEC];
static int g_ntr;
void vrt_trace_call(const char* name) {
  for (int i = 0; i < g_nsyms; i++)
    if (!strcmp(g_syms[i].name, name) && g_ntr < MAXSEC) {
      g_tr[g_ntr].lo = g_syms[i].lo;
      g_tr[g_ntr].hi = g_syms[i].hi;
      g_ntr++;
    }
}
static int in_traced(uintptr_t pc) {
  for (int i = 0; i < g_ntr; i++)
    if (pc >= g_tr[i].lo && pc < g_tr[i].hi) return 1;
  return 0;
}
static int in_section(uintptr_t pc) {
  for (int i = 0; i < g_nsec; i++)
    if (pc >= g_sec[i].lo && pc < g_sec[i].hi) return 1;
  return 0;
}

void vrt_init(void) {
  static int done;
  if (done) return;
  done = 1;
  load_symbols();
  uint64_t seed = (uint64_t)vrt_getenv_int("VRT_SEED", 1);
  g_rng = 88172645463325252ULL ^ (seed * 0x9E3779B97F4A7C15ULL);
  g_rng2 = 0x2545F4914F6CDD1DULL ^ (seed * 0xD1B54A32D192ED03ULL);
  if (!g_rng) g_rng = 1;
  if (!g_rng2) g_rng2 = 1;
  for (int i = 0; i < 8; i++) {
    xs(&g_rng);
    xs(&g_rng2);
  }
  g_trace_path = getenv("VRT_TRACE");
  g_max_points = vrt_getenv_int("VRT_MAX_POINTS", 400000);
  g_spin_limit = (int)vrt_getenv_int("VRT_SPIN_LIMIT", 80);
  /* one seed in ten models a long stall of the other kernel threads: a busy-waiting thread keeps
     the CPU for thousands of iterations before the scheduler treats it as waiting (bounded
     retry loops and give-up paths only show then) */
  int long_stall = !getenv("VRT_SPIN_LIMIT") && (seed % 10) == 7;
  if (long_stall) {
    g_spin_limit = 30000;
    g_fair_run = 60000;
    g_long_stalls = 3;
  }
  g_fair_run = (int)vrt_getenv_int("VRT_FAIR_RUN", g_fair_run);
  g_env_pct = (int)vrt_getenv_int("VRT_ENV_PCT", 3);
  g_xstack = (int)vrt_getenv_int("VRT_XSTACK", 0);
  const char* pol = vrt_getenv("VRT_POLICY", "mix");
  if (!strcmp(pol, "mix") && long_stall) {
    g_policy = 1; /* priority scheduling: the spinner really keeps the CPU */
  } else if (!strcmp(pol, "mix")) {
    /* derive policy + stickiness from the seed for variety */
    unsigned r = rnd(10);
    if (r < 3) {
      g_policy = 1;
    } else {
      g_policy = 0;
      static const int st[] = {0, 30, 60, 80, 90, 95, 98};
      g_stick = st[rnd(7)];
    }
  } else if (!strcmp(pol, "pct")) {
    g_policy = 1;
  } else {
    g_policy = 0;
    g_stick = (int)vrt_getenv_int("VRT_STICK", 70);
  }
  if (g_policy == 1) {
    g_pct_d = 1 + (int)rnd(3);
    g_pct_k = (int)vrt_getenv_int("VRT_PCT_K", 600);
    for (int d = 0; d < g_pct_d; d++) g_pct_pts[d] = 1 + (long)rnd((unsigned)g_pct_k);
  }
  const char* sp_ = getenv("VRT_STALL");
  if (sp_ && *sp_) {
    char tmp[160];
    snprintf(tmp, sizeof tmp, "%s", sp_);
    char* c1 = strchr(tmp, ':');
    char* c2 = c1 ? strchr(c1 + 1, ':') : NULL;
    if (c1 && c2) {
      *c1 = *c2 = 0;
      snprintf(g_stall_fn, sizeof g_stall_fn, "%s", tmp);
      snprintf(g_stall_fld, sizeof g_stall_fld, "%s", c1 + 1);
      g_stall_k = atoi(c2 + 1);
    }
  }
  const char* gp = getenv("VRT_GUIDE");
  if (gp && *gp) {
    FILE* f = fopen(gp, "r");
    if (f) {
      char w[128];
      int cap = 0;
      while (fscanf(f, "%127s", w) == 1) {
        if (g_nguide == cap) {
          cap = cap ? cap * 2 : 256;
          g_guide = realloc(g_guide, sizeof(guide_t) * (size_t)cap);
        }
        guide_t* gd = &g_guide[g_nguide++];
        memset(gd, 0, sizeof *gd);
        gd->thr = (w[0] == 't') ? atoi(w + 1) : GUIDE_ENV;
        char* at = strchr(w, '@');
        char* col = at ? strchr(at, ':') : NULL;
        if (at && col) {
          *col = 0;
          snprintf(gd->fn, sizeof gd->fn, "%s", at + 1);
          snprintf(gd->fld, sizeof gd->fld, "%s", col + 1);
        }
      }
      fclose(f);
    }
  }
  const char* rp = getenv("VRT_REPLAY");
  if (rp && *rp) {
    FILE* f = fopen(rp, "r");
    if (f) {
      int cap = 0, v;
      while (fscanf(f, "%d", &v) == 1) {
        if (g_nreplay == cap) {
          cap = cap ? cap * 2 : 4096;
          g_replay = realloc(g_replay, sizeof(int) * (size_t)cap);
        }
        g_replay[g_nreplay++] = v;
      }
      fclose(f);
    }
  }
  /* main thread is t0 */
  vthread_t* s = &g_thr[0];
  memset(s, 0, sizeof *s);
  s->idx = 0;
  s->alive = s->started = 1;
  s->prio = 100 + (int)rnd(1000);
  s->fldidx = -1;
  s->casres = -1;
  s->wait_for = -1;
  g_nthr = 1;
  self = s;
  struct sigaction sa;
  memset(&sa, 0, sizeof sa);
  sa.sa_handler = on_signal;
  sigaction(SIGSEGV, &sa, NULL);
  sigaction(SIGBUS, &sa, NULL);
  sigaction(SIGABRT, &sa, NULL);
  sigaction(SIGFPE, &sa, NULL);
  sigaction(SIGILL, &sa, NULL);
  sa.sa_handler = on_signal;
  sigaction(SIGALRM, &sa, NULL);
  alarm((unsigned)vrt_getenv_int("VRT_ALARM", 20));
  (void)g_dummy;
}

void vrt_start(void) {
  vthread_t* s = self;
  if (!s) die("vrt_start before vrt_init");
  s->in_rt = 1;
  g_started = 1;
  buf_printf("{\"i\":%ld,\"k\":\"begin\",\"seed\":%ld,\"policy\":%d,\"stick\":%d}\n", g_evno++,
             vrt_getenv_int("VRT_SEED", 1), g_policy, g_stick);
  emit_init_fields(0);
  g_on = 1;
  open_step(s, "cont", 0, 0, -1, 0, -1);
  s->in_rt = 0;
}

/* ------------------------------------------------------------------ pthread_create wrap */
extern int __real_pthread_create(pthread_t*, const pthread_attr_t*, void* (*)(void*), void*);
static void* trampoline(void* a) {
  vthread_t* s = a;
  self = s;
  wait_turn(s);
  s->in_rt = 1;
  open_step(s, "start", 0, 0, -1, 0, -1);
  s->in_rt = 0;
  void* r = s->fn(s->arg);
  /* thread function returned: thread leaves the schedule */
  s->in_rt = 1;
  finish_step(s);
  s->alive = 0;
  if (g_on) {
    for (;;) {
      int p = pick(NULL);
      if (p == -100) end_run("quiescent");
      if (p < 0) {
        do_env(-1 - p);
        continue;
      }
      record_pick(p);
      g_thr[p].yielding = 0;
      give_turn(&g_thr[p]);
      break;
    }
  }
  return r;
}
int __wrap_pthread_create(pthread_t* th, const pthread_attr_t* attr, void* (*fn)(void*), void* arg) {
  vthread_t* me = self;
  if (!me) return __real_pthread_create(th, attr, fn, arg);
  if (g_nthr >= MAXT) die("too many threads");
  int old = me->in_rt;
  me->in_rt = 1;
  vthread_t* s = &g_thr[g_nthr];
  void* keep_running = s->running;
  memset(s, 0, sizeof *s);
  s->running = keep_running;
  s->idx = g_nthr;
  s->alive = 1;
  s->started = 1;
  s->fn = fn;
  s->arg = arg;
  s->prio = 100 + (int)rnd(1000);
  s->fldidx = -1;
  s->casres = -1;
  s->wait_for = -1;
  g_nthr++;
  int r = __real_pthread_create(th, attr, trampoline, s);
  s->tid = *th;
  me->in_rt = old;
  if (!g_on) {
    /* before vrt_start: new threads still wait for a turn; they get it once
       controlled scheduling begins */
  }
  return r;
}

extern int __real_pthread_join(pthread_t, void**);
int __wrap_pthread_join(pthread_t th, void** ret) {
  vthread_t* s = self;
  if (g_on && s && !s->in_rt) {
    int target = -1;
    for (int i = 1; i < g_nthr; i++)
      if (pthread_equal(g_thr[i].tid, th)) target = i;
    if (target >= 0 && g_thr[target].alive) {
      s->in_rt = 1;
      finish_step(s);
      s->wait_for = target;
      sched(s);
      s->wait_for = -1;
      open_step(s, "cont", 0, 0, -1, 0, -1);
      s->in_rt = 0;
    }
  }
  return __real_pthread_join(th, ret);
}

/* ------------------------------------------------------------------ free wrap */
extern void __real_free(void*);
void __wrap_free(void* p) {
  if (!p) return;
  if (g_nobj) {
    uintptr_t a = (uintptr_t)p;
    for (int i = g_nobj - 1; i >= 0; i--) {
      if (g_obj[i].base == a && g_obj[i].watch) {
        vthread_t* s = self;
        int old = s ? s->in_rt : 0;
        if (s) s->in_rt = 1;
        if (g_obj[i].dead) {
          buf_printf("{\"i\":%ld,\"t\":\"t%d\",\"k\":\"double_free\",\"o\":\"%s\"}\n", g_evno++, s ? s->idx : -1,
                     g_obj[i].name);
        } else {
          g_obj[i].dead = 1;
          g_rng_dirty = 1;
          buf_printf("{\"i\":%ld,\"t\":\"t%d\",\"k\":\"free\",\"o\":\"%s\"}\n", g_evno++, s ? s->idx : -1,
                     g_obj[i].name);
        }
        if (s) s->in_rt = old;
        return; /* quarantined: never really freed */
      }
    }
  }
  __real_free(p);
}

/* ------------------------------------------------------------------ syscall virtualisation */
int epoll_wait(int epfd, struct epoll_event* ev, int max, int timeout) {
  vthread_t* s = self;
  if (!g_on || !s || s->in_rt) return (int)syscall(SYS_epoll_wait, epfd, ev, max, timeout);
  point("SYS", NULL, 0, 0, 1, -1, (uintptr_t)__builtin_return_address(0));
  int n = (int)syscall(SYS_epoll_wait, epfd, ev, max, 0);
  if (n == 0) {
    s->in_rt = 1;
    finish_step(s);
    s->yielding = Y_IDLE;
    s->yield_epoch = g_have_wakeidle ? g_qepoch : g_epoch;
    sched(s);
    open_step(s, "cont", 0, 0, -1, 0, -1);
    s->in_rt = 0;
  } else if (n > 0) {
    s->in_rt = 1;
    s->quiet_points = 0;
    g_epoch++;
    g_qepoch++;
    buf_printf("{\"i\":%ld,\"t\":\"t%d\",\"k\":\"poll\",\"n\":%d}\n", g_evno++, s->idx, n);
    s->in_rt = 0;
  }
  return n;
}
static int g_timer_efd = -1;
int timerfd_create(int clockid, int flags) {
  (void)clockid;
  (void)flags;
  g_timer_efd = eventfd(0, EFD_NONBLOCK);
  return g_timer_efd;
}
int timerfd_settime(int fd, int flags, const struct itimerspec* n, struct itimerspec* o) {
  (void)fd;
  (void)flags;
  (void)n;
  if (o) memset(o, 0, sizeof *o);
  return 0;
}
int vrt_timer_fd(void) { return g_timer_efd; }
void vrt_tick64(uint64_t n) {
  if (g_timer_efd >= 0) syscall(SYS_write, g_timer_efd, &n, sizeof n);
  g_epoch++;
  g_qepoch++;
}
void vrt_tick(unsigned n) {
  uint64_t v = n;
  if (g_timer_efd >= 0) syscall(SYS_write, g_timer_efd, &v, sizeof v);
}

/* ------------------------------------------------------------------ hooks from libfiber */
void libfiber_verif_fence(int kind) {
  vthread_t* s = self;
  if (!g_on || !s || s->in_rt || s->atomic_depth > 0) return; /* no step boundary inside an atomic section */
  s->in_rt++;
  finish_step(s);
  buf_printf("{\"i\":%ld,\"t\":\"t%d\",\"k\":\"fence\",\"kind\":%d,\"fn\":\"%s\"}\n", g_evno++, s->idx, kind,
             fn_of((uintptr_t)__builtin_return_address(0)));
  open_step(s, "cont", 0, 0, -1, 0, -1);
  s->in_rt--;
}
void libfiber_verif_relax(void) {
  vthread_t* s = self;
  if (!g_on || !s || s->in_rt) return;
  s->in_rt = 1;
  finish_step(s);
  s->yielding = Y_RELAX;
  s->yield_epoch = g_epoch;
  sched(s);
  open_step(s, "RELAX", 0, (uintptr_t)__builtin_return_address(0), -1, 0, -1);
  s->in_rt = 0;
}
void libfiber_verif_cas2_pre(volatile void* loc) {
  point("CAS2", (const void*)loc, 16, 1, 1, 5, (uintptr_t)__builtin_return_address(0));
}
void libfiber_verif_cas2_post(volatile void* loc, int result) {
  (void)loc;
  vthread_t* s = self;
  if (!g_on || !s || s->in_rt) return;
  s->casres = result;
}

/* ------------------------------------------------------------------ tsan ABI */
#define PC ((uintptr_t)__builtin_return_address(0))
void __tsan_init(void) {}
#define RW(N)                                                                                      \
  void __tsan_read##N(void* a) { point("R", a, N, 0, 0, -1, PC); }                                 \
  void __tsan_write##N(void* a) { point("W", a, N, 1, 0, -1, PC); }                                \
  void __tsan_unaligned_read##N(void* a) { point("R", a, N, 0, 0, -1, PC); }                       \
  void __tsan_unaligned_write##N(void* a) { point("W", a, N, 1, 0, -1, PC); }                      \
  void __tsan_volatile_read##N(void* a) { point("VR", a, N, 0, 1, -1, PC); }                       \
  void __tsan_volatile_write##N(void* a) { point("VW", a, N, 1, 1, -1, PC); }                      \
  void __tsan_unaligned_volatile_read##N(void* a) { point("VR", a, N, 0, 1, -1, PC); }             \
  void __tsan_unaligned_volatile_write##N(void* a) { point("VW", a, N, 1, 1, -1, PC); }
RW(1) RW(2) RW(4) RW(8) RW(16)
void __tsan_read_range(void* a, unsigned long n) { point("R", a, n, 0, 0, -1, PC); }
void __tsan_write_range(void* a, unsigned long n) { point("W", a, n, 1, 0, -1, PC); }
void __tsan_vptr_update(void** a, void* v) { (void)a; (void)v; }
void __tsan_vptr_read(void** a) { (void)a; }
void __tsan_func_entry(void* call_pc) {
  (void)call_pc;
  vthread_t* s = self;
  if (!g_on || !s || s->in_rt || !(g_nsec || g_ntr)) return;
  uintptr_t pc = PC;
  if (in_section(pc)) {
    if (s->atomic_depth == 0) point("CALL", NULL, 0, 1, 1, -1, pc);
    s->atomic_depth++;
  } else if (g_ntr && s->atomic_depth == 0 && in_traced(pc)) {
    point("CALL", NULL, 0, 0, 1, -1, pc);
  }
}
void __tsan_func_exit(void) {
  vthread_t* s = self;
  if (!g_on || !s || s->in_rt || !g_nsec) return;
  if (s->atomic_depth > 0 && in_section(PC)) {
    s->atomic_depth--;
    /* leaving an atomic section is a scheduling point too: what the caller does next
       (plain reads included) can be separated from the section's effect */
    if (s->atomic_depth == 0) point("RET", NULL, 0, 0, 1, -1, PC);
  }
}

static void set_old(long long v) {
  vthread_t* s = self;
  if (s && g_on && !s->in_rt && s->step_open && !s->atomic_depth) {
    s->aold = v;
    s->have_old = 1;
  }
}
#define ATOMICS(N, T)                                                                              \
  T __tsan_atomic##N##_load(const volatile T* a, int mo) {                                         \
    point("AL", (const void*)a, sizeof(T), 0, 1, mo, PC);                                          \
    T v = __atomic_load_n(a, __ATOMIC_SEQ_CST);                                                    \
    set_old((long long)v);                                                                         \
    return v;                                                                                      \
  }                                                                                                \
  void __tsan_atomic##N##_store(volatile T* a, T v, int mo) {                                      \
    point("AS", (const void*)a, sizeof(T), 1, 1, mo, PC);                                          \
    __atomic_store_n(a, v, __ATOMIC_SEQ_CST);                                                      \
  }                                                                                                \
  T __tsan_atomic##N##_exchange(volatile T* a, T v, int mo) {                                      \
    point("XCHG", (const void*)a, sizeof(T), 1, 1, mo, PC);                                        \
    T o = __atomic_exchange_n(a, v, __ATOMIC_SEQ_CST);                                             \
    set_old((long long)o);                                                                         \
    return o;                                                                                      \
  }                                                                                                \
  T __tsan_atomic##N##_fetch_add(volatile T* a, T v, int mo) {                                     \
    point("RMW", (const void*)a, sizeof(T), 1, 1, mo, PC);                                         \
    T o = __atomic_fetch_add(a, v, __ATOMIC_SEQ_CST);                                              \
    set_old((long long)o);                                                                         \
    return o;                                                                                      \
  }                                                                                                \
  T __tsan_atomic##N##_fetch_sub(volatile T* a, T v, int mo) {                                     \
    point("RMW", (const void*)a, sizeof(T), 1, 1, mo, PC);                                         \
    T o = __atomic_fetch_sub(a, v, __ATOMIC_SEQ_CST);                                              \
    set_old((long long)o);                                                                         \
    return o;                                                                                      \
  }                                                                                                \
  T __tsan_atomic##N##_fetch_and(volatile T* a, T v, int mo) {                                     \
    point("RMW", (const void*)a, sizeof(T), 1, 1, mo, PC);                                         \
    T o = __atomic_fetch_and(a, v, __ATOMIC_SEQ_CST);                                              \
    set_old((long long)o);                                                                         \
    return o;                                                                                      \
  }                                                                                                \
  T __tsan_atomic##N##_fetch_or(volatile T* a, T v, int mo) {                                      \
    point("RMW", (const void*)a, sizeof(T), 1, 1, mo, PC);                                         \
    T o = __atomic_fetch_or(a, v, __ATOMIC_SEQ_CST);                                               \
    set_old((long long)o);                                                                         \
    return o;                                                                                      \
  }                                                                                                \
  T __tsan_atomic##N##_fetch_xor(volatile T* a, T v, int mo) {                                     \
    point("RMW", (const void*)a, sizeof(T), 1, 1, mo, PC);                                         \
    T o = __atomic_fetch_xor(a, v, __ATOMIC_SEQ_CST);                                              \
    set_old((long long)o);                                                                         \
    return o;                                                                                      \
  }                                                                                                \
  T __tsan_atomic##N##_fetch_nand(volatile T* a, T v, int mo) {                                    \
    point("RMW", (const void*)a, sizeof(T), 1, 1, mo, PC);                                         \
    T o = __atomic_fetch_nand(a, v, __ATOMIC_SEQ_CST);                                             \
    set_old((long long)o);                                                                         \
    return o;                                                                                      \
  }                                                                                                \
  int __tsan_atomic##N##_compare_exchange_strong(volatile T* a, T* c, T v, int mo, int fmo) {      \
    (void)fmo;                                                                                     \
    point("CAS", (const void*)a, sizeof(T), 1, 1, mo, PC);                                         \
    T exp = *c;                                                                                    \
    int ok = __atomic_compare_exchange_n(a, c, v, 0, __ATOMIC_SEQ_CST, __ATOMIC_SEQ_CST);          \
    set_old((long long)(ok ? exp : *c));                                                           \
    if (self && g_on && !self->in_rt) self->casres = ok;                                           \
    return ok;                                                                                     \
  }                                                                                                \
  int __tsan_atomic##N##_compare_exchange_weak(volatile T* a, T* c, T v, int mo, int fmo) {        \
    (void)fmo;                                                                                     \
    point("CAS", (const void*)a, sizeof(T), 1, 1, mo, PC);                                         \
    T exp = *c;                                                                                    \
    int ok = __atomic_compare_exchange_n(a, c, v, 0, __ATOMIC_SEQ_CST, __ATOMIC_SEQ_CST);          \
    set_old((long long)(ok ? exp : *c));                                                           \
    if (self && g_on && !self->in_rt) self->casres = ok;                                           \
    return ok;                                                                                     \
  }                                                                                                \
  T __tsan_atomic##N##_compare_exchange_val(volatile T* a, T c, T v, int mo, int fmo) {            \
    (void)fmo;                                                                                     \
    point("CAS", (const void*)a, sizeof(T), 1, 1, mo, PC);                                         \
    T exp = c;                                                                                     \
    int ok = __atomic_compare_exchange_n(a, &exp, v, 0, __ATOMIC_SEQ_CST, __ATOMIC_SEQ_CST);       \
    set_old((long long)exp);                                                                       \
    if (self && g_on && !self->in_rt) self->casres = ok;                                           \
    return exp;                                                                                    \
  }
ATOMICS(8, uint8_t)
ATOMICS(16, uint16_t)
ATOMICS(32, uint32_t)
ATOMICS(64, uint64_t)
void __tsan_atomic_thread_fence(int mo) {
  vthread_t* s = self;
  if (!g_on || !s || s->in_rt) return;
  s->in_rt++;
  finish_step(s);
  buf_printf("{\"i\":%ld,\"t\":\"t%d\",\"k\":\"fence\",\"kind\":%d,\"fn\":\"%s\"}\n", g_evno++, s->idx, 10 + mo,
             fn_of(PC));
  open_step(s, "cont", 0, 0, -1, 0, -1);
  s->in_rt--;
}
void __tsan_atomic_signal_fence(int mo) { (void)mo; }

/* fibers: handles are opaque; the glue (vrt_fiber.c) does the naming */
extern void vrt_glue_switch(void* handle) __attribute__((weak));
extern void vrt_glue_destroy(void* handle) __attribute__((weak));
static uintptr_t g_fiber_handles = 0x1000;
void* __tsan_create_fiber(unsigned flags) {
  (void)flags;
  g_fiber_handles += 16;
  return (void*)g_fiber_handles;
}
void* __tsan_get_current_fiber(void) {
  g_fiber_handles += 16;
  return (void*)g_fiber_handles;
}
void __tsan_destroy_fiber(void* h) {
  if (vrt_glue_destroy && self) {
    int old = self->in_rt;
    self->in_rt = 1;
    vrt_glue_destroy(h);
    self->in_rt = old;
  }
}
void __tsan_switch_to_fiber(void* h, unsigned flags) {
  (void)flags;
  if (vrt_glue_switch && self) {
    int old = self->in_rt;
    self->in_rt = 1;
    vrt_glue_switch(h);
    self->in_rt = old;
  }
}
void __tsan_set_fiber_name(void* h, const char* n) { (void)h; (void)n; }

/* access for the glue */
void** vrt_running_slot(int idx) { return &g_thr[idx].running; }
const char* vrt_fn_of(uintptr_t pc) { return fn_of(pc); }
int vrt_nthreads(void) { return g_nthr; }
void vrt_emit_raw(const char* fmt, ...) {
  char tmp[1024];
  va_list ap;
  va_start(ap, fmt);
  vsnprintf(tmp, sizeof tmp, fmt, ap);
  va_end(ap);
  buf_printf("{\"i\":%ld,\"t\":\"t%d\",%s}\n", g_evno++, self ? self->idx : -1, tmp);
}
int vrt_in_rt_push(void) {
  if (!self) return 0;
  int o = self->in_rt;
  self->in_rt = 1;
  return o;
}
void vrt_in_rt_pop(int o) {
  if (self) self->in_rt = o;
}
