/* replaces src/fiber_event_native.c in the verification build: white-box
 * registration of the sleep machinery (sleepers tree, tick count, sleep spinlock) */
#include "fiber_event_native.c"
#include <stdio.h>
#include "vrt.h"

/* sleepers in wake order: [[wake_time, [fiber, ...]], ...] (in-order walk of the tree,
 * each equal-key chain in list order) */
static size_t dec_walk(const waiter_el_t* n, char* out, size_t cap, size_t pos, int* first, int depth) {
  if (!n || depth > 16 || pos + 128 > cap) return pos;
  pos = dec_walk(n->left, out, cap, pos, first, depth + 1);
  pos += (size_t)snprintf(out + pos, cap - pos, "%s[%llu,[", *first ? "" : ",", (unsigned long long)n->wake_time);
  *first = 0;
  int k = 0;
  for (const waiter_el_t* c = n; c && k < 8 && pos + 64 < cap; c = c->next, k++)
    pos += (size_t)snprintf(out + pos, cap - pos, "%s\"%s\"", k ? "," : "", vrt_name_of(c->waiter));
  pos += (size_t)snprintf(out + pos, cap - pos, "]]");
  return dec_walk(n->right, out, cap, pos, first, depth + 1);
}
static void dec_sleepers(const void* base, char* out, size_t cap) {
  (void)base;
  int first = 1;
  size_t pos = (size_t)snprintf(out, cap, "[");
  pos = dec_walk(sleepers, out, cap, pos, &first, 0);
  snprintf(out + pos, cap - pos, "]");
}
int vrt_wb_sleepers_nonempty(void) { return sleepers != NULL; }

void vrt_wb_register_sleep(void) {
  static const vrt_field_t f[] = {
      {"root", 0, 8, VD_PTR, VF_NOEPOCH, 0},        /* the static `sleepers` (scheduling point) */
      {"tree", 0, 0, VD_CUSTOM, 0, dec_sleepers},
  };
  vrt_reg_obj("sleepers", &sleepers, sizeof sleepers, f, 2);
  static const vrt_field_t c[] = {{"count", 0, 8, VD_U64, 0, 0}};
  vrt_reg_obj("ticks", &timer_trigger_count, sizeof timer_trigger_count, c, 1);
  static const vrt_field_t l[] = {
      {"ticket", offsetof(fiber_spinlock_t, state.counters.ticket), 4, VD_U32, 0, 0},
      {"users", offsetof(fiber_spinlock_t, state.counters.users), 4, VD_U32, 0, 0},
  };
  vrt_reg_obj("sleeplock", &sleep_spinlock, sizeof sleep_spinlock, l, 2);
}
