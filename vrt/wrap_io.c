/* replaces src/fiber_io.c in the C08 build (tools/build_fiber_io.sh): the REAL system calls
 * the shim makes (through its fibershim_* pointers) are routed through logging functions of
 * drivers/ext_io.c, so that kernel-level results are events of the recorded execution
 * ("sys" records) and the model's abstract kernel can follow. */
#include "fiber_io.c"
#include <stdio.h>
#include "vrt.h"

extern void vrt_io_sys_rw(const char* op, int fd, long req, long ret, int err, const void* buf);
extern void vrt_io_sys_simple(const char* op, int fd, long ret, int err);

static readFnType real_read;
static writeFnType real_write;
static acceptFnType real_accept;
static closeFnType real_close;
static recvFnType real_recv;
static sendFnType real_send;

static ssize_t log_read(int fd, void* b, size_t n) {
  ssize_t r = real_read(fd, b, n);
  int e = errno;
  vrt_io_sys_rw("read", fd, (long)n, (long)r, e, b);
  errno = e;
  return r;
}
static ssize_t log_recv(int fd, void* b, size_t n, int fl) {
  ssize_t r = real_recv(fd, b, n, fl);
  int e = errno;
  vrt_io_sys_rw("read", fd, (long)n, (long)r, e, b);
  errno = e;
  return r;
}
static ssize_t log_write(int fd, const void* b, size_t n) {
  ssize_t r = real_write(fd, b, n);
  int e = errno;
  vrt_io_sys_rw("write", fd, (long)n, (long)r, e, b);
  errno = e;
  return r;
}
static ssize_t log_send(int fd, const void* b, size_t n, int fl) {
  ssize_t r = real_send(fd, b, n, fl);
  int e = errno;
  vrt_io_sys_rw("write", fd, (long)n, (long)r, e, b);
  errno = e;
  return r;
}
static int log_accept(int fd, struct sockaddr* a, socklen_t* l) {
  int r = real_accept(fd, a, l);
  int e = errno;
  vrt_io_sys_simple("accept", fd, r, e);
  errno = e;
  return r;
}
static int log_close(int fd) {
  int r = real_close(fd);
  int e = errno;
  vrt_io_sys_simple("close", fd, r, e);
  errno = e;
  return r;
}
/* call after fiber_manager_init() (fiber_io_init has resolved the pointers) */
void vrt_wb_io_hook(void) {
  real_read = fibershim_read;
  real_write = fibershim_write;
  real_accept = fibershim_accept;
  real_close = fibershim_close;
  real_recv = fibershim_recv;
  real_send = fibershim_send;
  fibershim_read = log_read;
  fibershim_write = log_write;
  fibershim_accept = log_accept;
  fibershim_close = log_close;
  fibershim_recv = log_recv;
  fibershim_send = log_send;
}
/* the shim's per-descriptor flag byte (IO_FLAG_BLOCKING | IO_FLAG_WAITABLE): object fl_<name>, field flags */
void vrt_wb_register_ioflags(const char* name, int fd) {
  if (!fd_info || fd < 0 || (rlim_t)fd >= max_fd) return;
  char nm[48];
  snprintf(nm, sizeof nm, "fl_%s", name);
  static const vrt_field_t f[] = {{"flags", 0, 1, VD_U8, 0, 0}};
  vrt_reg_obj(nm, &fd_info[fd], 1, f, 1);
}
