/* replaces vrt/wrap_event.c (and thereby src/fiber_event_native.c) in the C08 build
 * (tools/build_fiber_io.sh): the sleep registration of wrap_event.c is kept, and
 *  - the epoll system calls fiber_event_native.c makes are routed through logging
 *    functions of drivers/ext_io.c ("sys" records: kernel-level results are events too),
 *  - vrt_wb_register_io() registers the fd_wait_info entry of a descriptor in play:
 *    object <name>    fields events (EPOLLIN=1, EPOLLOUT=4), added, waiters
 *    object lk_<name> fields ticket, users   (the entry's ticket spinlock)
 * To merge into wrap_event.c later: move the two #defines above its #include of
 * fiber_event_native.c and append vrt_wb_register_io(). */
#include <sys/epoll.h>
extern int vrt_io_epoll_wait(int epfd, struct epoll_event* ev, int max, int timeout);
extern int vrt_io_epoll_ctl(int epfd, int op, int fd, struct epoll_event* ev);
#define epoll_wait vrt_io_epoll_wait
#define epoll_ctl vrt_io_epoll_ctl
#include "wrap_event.c"
#undef epoll_wait
#undef epoll_ctl

void vrt_wb_register_io(const char* name, int fd) {
  if (!wait_info || fd < 0 || fd >= max_fd) return;
  fd_wait_info_t* info = &wait_info[fd];
  static const vrt_field_t f[] = {
      {"events", offsetof(fd_wait_info_t, events), 4, VD_I32, 0, 0},
      {"added", offsetof(fd_wait_info_t, added), 4, VD_I32, 0, 0},
      {"waiters", offsetof(fd_wait_info_t, waiters), 8, VD_PTR, 0, 0},
  };
  /* the object covers events+added and waiters; the spinlock in between is its own object */
  vrt_reg_obj(name, info, sizeof *info, f, 3);
  char nm[48];
  snprintf(nm, sizeof nm, "lk_%s", name);
  static const vrt_field_t l[] = {
      {"ticket", offsetof(fiber_spinlock_t, state.counters.ticket), 4, VD_U32, 0, 0},
      {"users", offsetof(fiber_spinlock_t, state.counters.users), 4, VD_U32, 0, 0},
  };
  vrt_reg_obj(nm, &info->spinlock, sizeof info->spinlock, l, 2);
}
int vrt_wb_event_fd(void) { return event_fd; }
/* test helper: number of fibers on the waiter list of the descriptor (read without the lock) */
int vrt_wb_io_nwaiters(int fd) {
  if (!wait_info || fd < 0 || fd >= max_fd) return 0;
  int n = 0;
  for (fiber_t* f = (fiber_t*)wait_info[fd].waiters; f && n < 64; f = (fiber_t*)f->scratch) {
    n++;
    if ((uintptr_t)f->scratch >= (uintptr_t)-4096) break;
  }
  return n;
}
