/* replaces src/fiber.c in the verification build: white-box access to the
 * marker handed to a joiner whose target got detached */
#include "fiber.c"
#include "vrt.h"
void vrt_wb_register_fiber_statics(void) { vrt_reg_name("detached_marker", &fiber_detached_while_joining, 1); }
