/* white-box access to fiber_manager.c statics without touching the repository:
 * this TU replaces src/fiber_manager.c in the verification build */
#include "fiber_manager.c"
#include "vrt.h"

fiber_manager_t* vrt_wb_manager(int i) {
  if (!fiber_managers || i < 0 || i >= fiber_manager_num_threads) return NULL;
  return fiber_managers[i];
}
int vrt_wb_num_managers(void) { return fiber_manager_num_threads; }
