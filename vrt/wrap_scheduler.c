/* replaces src/fiber_scheduler_wsd.c in the verification build; adds
 * registration of scheduler state with the runtime */
#include "fiber_scheduler_wsd.c"
#include <stdio.h>
#include "vrt.h"

/* abstract content of a deque: fibers between top and bottom, top first */
static void dec_deque(const void* base, char* out, size_t cap) {
  const wsd_work_stealing_deque_t* d = base;
  int64_t t = d->top, b = d->bottom;
  wsd_circular_array_t* a = d->underlying_array;
  size_t n = 0;
  n += (size_t)snprintf(out + n, cap - n, "[");
  for (int64_t i = t; i < b && n + 48 < cap; i++) {
    void* p = a->data[i & a->size_minus_one].data;
    n += (size_t)snprintf(out + n, cap - n, "%s\"%s\"", i == t ? "" : ",", vrt_name_of(p));
  }
  snprintf(out + n, cap - n, "]");
}

void vrt_wb_register_schedulers(void) {
  for (size_t i = 0; i < fiber_scheduler_num_threads; i++) {
    fiber_scheduler_wsd_t* s = &fiber_schedulers[i];
    char nm[32];
    static const vrt_field_t dq[] = {{"q", 0, 0, VD_CUSTOM, VF_WAKEIDLE, dec_deque}};
    snprintf(nm, sizeof nm, "dq%zua", i);
    vrt_reg_obj(nm, s->queue_one, sizeof(wsd_work_stealing_deque_t), dq, 1);
    snprintf(nm, sizeof nm, "dq%zub", i);
    vrt_reg_obj(nm, s->queue_two, sizeof(wsd_work_stealing_deque_t), dq, 1);
    static const vrt_field_t sf[] = {
        {"from", offsetof(fiber_scheduler_wsd_t, schedule_from), 8, VD_PTR, VF_NOEPOCH | VF_NOSCHED, 0},
        {"to", offsetof(fiber_scheduler_wsd_t, store_to), 8, VD_PTR, VF_NOEPOCH | VF_NOSCHED, 0},
    };
    snprintf(nm, sizeof nm, "sch%zu", i);
    vrt_reg_obj(nm, s, sizeof *s, sf, 2);
  }
}
