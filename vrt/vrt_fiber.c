/* glue between the runtime and libfiber's fiber/manager structures.
 * Compiled WITHOUT instrumentation but with -D__SANITIZE_THREAD__=1 so that
 * struct layouts match the instrumented library. */
#include <stdio.h>
#include <string.h>

#include "fiber_manager.h"
#include "vrt.h"

extern fiber_manager_t* vrt_wb_manager(int i);
extern int vrt_wb_num_managers(void);
extern void vrt_wb_register_schedulers(void);
extern void vrt_wb_register_fiber_statics(void);
extern void** vrt_running_slot(int idx);
extern int vrt_in_rt_push(void);
extern void vrt_in_rt_pop(int);

static __thread char g_next_name[40]; /* per kernel thread: a spawn on one thread must not name the maintenance fiber another thread creates meanwhile */
static int g_nthreadfibers;
void vrt_next_fiber_name(const char* n) { snprintf(g_next_name, sizeof g_next_name, "%s", n); }

static const vrt_field_t fiber_fields[] = {
    {"state", offsetof(fiber_t, state), 4, VD_I32, 0, 0},
    {"node", offsetof(fiber_t, mpsc_fifo_node), 8, VD_PTR, 0, 0},
    {"detach", offsetof(fiber_t, detach_state), 4, VD_I32, 0, 0},
    {"join", offsetof(fiber_t, join_info), 8, VD_PTR, 0, 0},
    {"scratch", offsetof(fiber_t, scratch), 8, VD_PTR, 0, 0},
    {"result", offsetof(fiber_t, result), 8, VD_PTR, 0, 0},
};
static const vrt_field_t node_fields[] = {
    {"data", offsetof(mpsc_fifo_node_t, data), 8, VD_PTR, 0, 0},
    {"next", offsetof(mpsc_fifo_node_t, next), 8, VD_PTR, 0, 0},
};
int vrt_fiber_track_nodes = 1;
static struct { fiber_t* f; uintptr_t lo, hi; } g_stk[128];
static int g_nstk;


void libfiber_verif_fiber_created(fiber_t* f, int from_thread) {
  int o = vrt_in_rt_push();
  char nm[48], nm2[64];
  if (g_next_name[0]) {
    snprintf(nm, sizeof nm, "%s", g_next_name);
    g_next_name[0] = 0;
  } else if (from_thread) {
    snprintf(nm, sizeof nm, "thr%d", g_nthreadfibers);
  } else {
    fiber_manager_t* m = fiber_manager_get();
    snprintf(nm, sizeof nm, "mf%d", m ? m->id : -1);
  }
  if (from_thread) {
    *vrt_running_slot(g_nthreadfibers) = f;
    g_nthreadfibers++;
  }
  snprintf(nm2, sizeof nm2, "n_%s", nm);
  if (vrt_fiber_track_nodes)
    vrt_reg_obj(nm2, f->mpsc_fifo_node, sizeof(mpsc_fifo_node_t), node_fields, 2);
  else
    vrt_reg_name(nm2, f->mpsc_fifo_node, sizeof(mpsc_fifo_node_t));
  vrt_watch_free(f->mpsc_fifo_node);
  vrt_reg_obj(nm, f, sizeof *f, fiber_fields, (int)(sizeof fiber_fields / sizeof fiber_fields[0]));
  vrt_watch_free(f);
  if (!from_thread && f->context.ctx_stack) {
    snprintf(nm2, sizeof nm2, "stk_%s", nm);
    vrt_reg_name(nm2, f->context.ctx_stack, f->context.ctx_stack_size);
    vrt_watch_free(f->context.ctx_stack);
    if (g_nstk < 128) {
      g_stk[g_nstk].f = f;
      g_stk[g_nstk].lo = (uintptr_t)f->context.ctx_stack;
      g_stk[g_nstk].hi = g_stk[g_nstk].lo + f->context.ctx_stack_size;
      g_nstk++;
    }
  }
  vrt_in_rt_pop(o);
}

/* stacks of created fibers, for the foreign-stack-access oracle (VRT_XSTACK=1):
 * a plain access by kernel thread T into the stack of a fiber that is RUNNING on
 * another kernel thread races with that fiber popping the frame */
extern void vrt_emit_raw(const char* fmt, ...);
extern const char* vrt_fn_of(uintptr_t pc);
void vrt_glue_plain_access(uintptr_t addr, size_t size, int iswrite, uintptr_t pc) {
  (void)size;
  for (int i = 0; i < g_nstk; i++) {
    if (addr < g_stk[i].lo || addr >= g_stk[i].hi) continue;
    int idx = vrt_thread_index();
    fiber_t* mine = idx >= 0 ? *(fiber_t**)vrt_running_slot(idx) : NULL;
    fiber_t* owner = g_stk[i].f;
    if (owner == mine) return;
    /* owner running elsewhere: it may pop the frame any time; owner suspended: everything
       below its saved stack pointer is gone */
    if (owner->state == FIBER_STATE_RUNNING ||
        (owner->context.ctx_stack_pointer && addr < (uintptr_t)owner->context.ctx_stack_pointer &&
         owner->state != FIBER_STATE_SAVING_STATE_TO_WAIT))
      vrt_emit_raw("\"k\":\"xstack\",\"o\":\"%s\",\"acc\":\"%s\",\"fn\":\"%s\"", vrt_name_of(owner),
                   iswrite ? "W" : "R", vrt_fn_of(pc));
    return;
  }
}

void vrt_glue_switch(void* handle) {
  (void)handle;
  fiber_manager_t* m = fiber_manager_get();
  int idx = vrt_thread_index();
  if (!m || idx < 0) return;
  *vrt_running_slot(idx) = m->current_fiber;
}
void vrt_glue_destroy(void* handle) { (void)handle; }

static const vrt_field_t mgr_fields[] = {
    {"cur", offsetof(fiber_manager_t, current_fiber), 8, VD_PTR, VF_NOSCHED, 0},
    {"old", offsetof(fiber_manager_t, old_fiber), 8, VD_PTR, VF_NOSCHED, 0},
    {"tosched", offsetof(fiber_manager_t, to_schedule), 8, VD_PTR, VF_NOSCHED, 0},
    {"done", offsetof(fiber_manager_t, done_fiber), 8, VD_PTR, VF_NOSCHED, 0},
    {"mtx", offsetof(fiber_manager_t, mutex_to_unlock), 8, VD_PTR, VF_NOSCHED, 0},
    {"spin", offsetof(fiber_manager_t, spinlock_to_unlock), 8, VD_PTR, VF_NOSCHED, 0},
    {"setloc", offsetof(fiber_manager_t, set_wait_location), 8, VD_PTR, VF_NOSCHED, 0},
    {"setval", offsetof(fiber_manager_t, set_wait_value), 8, VD_PTR, VF_NOSCHED, 0},
    {"mpscq", offsetof(fiber_manager_t, mpsc_to_push.fifo), 8, VD_PTR, VF_NOSCHED, 0},
    {"mpmcq", offsetof(fiber_manager_t, mpmc_to_push.fifo), 8, VD_PTR, VF_NOSCHED, 0},
    {"maint", offsetof(fiber_manager_t, maintenance_fiber), 8, VD_PTR, VF_NOSCHED, 0},
};

/* call after fiber_manager_init(): registers managers, schedulers, thread run slots */
void vrt_fiber_setup(void) {
  int n = vrt_wb_num_managers();
  for (int i = 0; i < n; i++) {
    char nm[16];
    snprintf(nm, sizeof nm, "mgr%d", i);
    vrt_reg_obj(nm, vrt_wb_manager(i), sizeof(fiber_manager_t), mgr_fields,
                (int)(sizeof mgr_fields / sizeof mgr_fields[0]));
    static const vrt_field_t run[] = {{"run", 0, 8, VD_PTR, VF_NOSCHED, 0}};
    snprintf(nm, sizeof nm, "t%d", i);
    vrt_reg_obj(nm, vrt_running_slot(i), 8, run, 1);
  }
  vrt_wb_register_schedulers();
  /* VRT_YIELD_PRESET=n: start every manager's yield counter at n so that the "every 1024th yield"
     load balancing inside fiber_manager_yield happens within a short scenario */
  long yp = vrt_getenv_int("VRT_YIELD_PRESET", -1);
  if (yp >= 0)
    for (int i = 0; i < n; i++) vrt_wb_manager(i)->yield_count = (uint64_t)yp;
  vrt_wb_register_fiber_statics();
  static const char* secs[] = {"wsd_work_stealing_deque_push_bottom", "wsd_work_stealing_deque_pop_bottom",
                               "wsd_work_stealing_deque_steal", "wsd_work_stealing_deque_size"};
  for (unsigned i = 0; i < sizeof secs / sizeof secs[0]; i++) vrt_atomic_section(secs[i]);
  /* every pop attempt of the runtime's waiter queues is an event (pinned to label k1 of wake_mpsc) */
  vrt_trace_call("mpsc_fifo_trypop");
}

/* ---- abstract view of an MPSC wait queue: fibers reachable from head (in
 * order) and the fiber owning the tail node (null when tail == head) */
void vrt_mpsc_q(const mpsc_fifo_t* f, char* out, size_t cap) {
  size_t n = 0;
  n += (size_t)snprintf(out + n, cap - n, "[");
  const mpsc_fifo_node_t* h = f->head;
  int first = 1, guard = 0;
  for (const mpsc_fifo_node_t* x = h ? h->next : NULL; x && n + 48 < cap && guard < 200; x = x->next, guard++) {
    n += (size_t)snprintf(out + n, cap - n, "%s\"%s\"", first ? "" : ",", vrt_name_of(x->data));
    first = 0;
  }
  snprintf(out + n, cap - n, "]");
}
void vrt_mpsc_tailf(const mpsc_fifo_t* f, char* out, size_t cap) {
  const mpsc_fifo_node_t* t = (const mpsc_fifo_node_t*)f->tail;
  if (!t || t == f->head)
    snprintf(out, cap, "\"null\"");
  else
    snprintf(out, cap, "\"%s\"", vrt_name_of(t->data));
}
static void dec_mutex_q(const void* base, char* out, size_t cap) {
  vrt_mpsc_q(&((const fiber_mutex_t*)base)->waiters, out, cap);
}
static void dec_mutex_tailf(const void* base, char* out, size_t cap) {
  vrt_mpsc_tailf(&((const fiber_mutex_t*)base)->waiters, out, cap);
}
void vrt_reg_mutex(const char* name, fiber_mutex_t* m) {
  static const vrt_field_t f[] = {
      {"counter", offsetof(fiber_mutex_t, counter), 4, VD_I32, 0, 0},
      {"q", 0, 0, VD_CUSTOM, 0, dec_mutex_q},
      {"tailf", 0, 0, VD_CUSTOM, 0, dec_mutex_tailf},
  };
  vrt_reg_obj(name, m, sizeof *m, f, 3);
}
